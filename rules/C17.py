"""C17 - grammar relaxations only add accepted inputs and mean what they say."""
import ast
import itertools
import os
from concurrent.futures import ProcessPoolExecutor

from vt.grammar import Dialect, shipped_dialects, all_option_names, PARSER, LEXER, lexer_tables
from vt.model import walk_no_nested, norm, dotted_name, module_value, SourceModel
from vt.shapes import GrammarShapes, Sym, Tup, Lst, Cat, Const, Idx, NONE
from vt.runner import where, AnalysisError
from rules import common

EXPLANATION = (
    "Grammar-level argument for dialect monotonicity, decided on the productions extracted from the p_* docstrings "
    "and ply's own LALR(1) table generator: for D <= D' (same options plus some), P(D) is a subset of P(D') and "
    "every LALR conflict of D' discards a reduction by a production that is not in P(D) (ply: shift beats reduce, "
    "earlier rule beats later) - hence a D-derivation is a valid D' derivation and at every conflict cell the "
    "resolved action is the one that derivation needs; shared productions compute the same action term (abstract "
    "interpretation of the p_* bodies); each added alternative computes the term of its documented corrected form; "
    "the lexer tables only grow by the words the statement excepts; both factories are pure functions of the "
    "enabled options and reject unknown options with the package error before building anything.")
ASSUMPTIONS = [
    "ply's LALR(1) construction and conflict resolution rules (trusted base)",
    "the oracle table of corrected forms in rules/C17.py transcribes the parserFactory docstring",
]
TECHNIQUE = 'production-set inclusion + LALR conflict discipline (ply table generator) + action-term equality'
LEVEL_TEXT = ("Close to a proof for the monotonicity clause: exhaustive over the shipped dialect chain and every "
              "buildable single option (quick), every buildable subset of the nine options extended by one more "
              "option (thorough).")


def dialect(model, opts):
    cache = model.__dict__.setdefault('_dialects', {})
    key = tuple(sorted(k for k, v in opts.items() if v))
    if key not in cache:
        cache[key] = Dialect(model, dict((k, True) for k in key))
    return cache[key]


def shapes(model, opts):
    cache = model.__dict__.setdefault('_gshapes', {})
    key = tuple(sorted(k for k, v in opts.items() if v))
    if key not in cache:
        cache[key] = GrammarShapes(dialect(model, opts))
    return cache[key]


def dialect_list(chk, names=('smiV2', 'smiV1', 'smiV1Relaxed')):
    """[(name, options)]: the shipped dialects named; in the thorough tier followed by every other buildable subset
    of the relaxation options (parserFactory(**options) accepts any of them), named '{opt,opt,...}'."""
    model = chk.model
    ship = shipped_dialects(model)
    out = [(n, ship[n]) for n in names]
    if getattr(chk, 'tier', 'quick') != 'thorough':
        return out
    cache = model.__dict__.setdefault('_all_subsets', None)
    if cache is None:
        cache = []
        opts = sorted(all_option_names(model))
        have = set(tuple(sorted(k for k, v in o.items() if v)) for o in ship.values())
        for k in range(len(opts) + 1):
            for sub in itertools.combinations(opts, k):
                if sub in have:
                    continue
                o = dict((x, True) for x in sub)
                if dialect(model, o).buildable:
                    cache.append(('{%s}' % ','.join(sub), o))
        model.__dict__['_all_subsets'] = cache
        chk.note('thorough: %d further buildable option subsets analysed besides the shipped dialects' % len(cache))
    return out + cache


def reduce_candidates(d, state, tok):
    """productions with a complete item in `state` whose LALR lookahead set holds tok (the lookahead sets are the
    ones ply attached to the grammar's LR items while generating the table)"""
    out = []
    for prod in d.g.Productions:
        for item in getattr(prod, 'lr_items', []):
            if item.len == item.lr_index + 1 and tok in getattr(item, 'lookaheads', {}).get(state, []):
                out.append((prod.name, tuple(prod.prod)))
    return out


def subst(term, k, alt_term, width):
    """term of p' with Sym(k) replaced by alt_term (whose own Sym(i) become Sym(k-1+i)) and later symbols shifted"""
    from vt import shapes as sh

    def shift_alt(t):
        return remap(t, lambda i: k - 1 + i)

    def remap(t, f):
        if isinstance(t, sh.Sym):
            return sh.Sym(f(t.i))
        if isinstance(t, sh.Tup):
            return sh.Tup([remap(x, f) for x in t.items])
        if isinstance(t, sh.Lst):
            return sh.Lst([remap(x, f) for x in t.items])
        if isinstance(t, sh.Cat):
            return sh.Cat(remap(t.a, f), remap(t.b, f))
        if isinstance(t, sh.Idx):
            return sh.Idx(remap(t.t, f), t.i)
        if isinstance(t, sh.Slc):
            return sh.Slc(remap(t.t, f), t.lo, t.hi)
        if isinstance(t, sh.Cond):
            return sh.Cond(remap(t.test, f), remap(t.a, f), remap(t.b, f))
        return t

    def outer(t):
        if isinstance(t, sh.Sym):
            if t.i == k:
                return shift_alt(alt_term)
            return sh.Sym(t.i if t.i < k else t.i + width - 1)
        if isinstance(t, sh.Tup):
            return sh.Tup([outer(x) for x in t.items])
        if isinstance(t, sh.Lst):
            return sh.Lst([outer(x) for x in t.items])
        if isinstance(t, sh.Cat):
            return sh.Cat(outer(t.a), outer(t.b))
        if isinstance(t, sh.Idx):
            return sh.Idx(outer(t.t), t.i)
        if isinstance(t, sh.Slc):
            return sh.Slc(outer(t.t), t.lo, t.hi)
        if isinstance(t, sh.Cond):
            return sh.Cond(outer(t.test), outer(t.a), outer(t.b))
        return t
    return outer(term)


def simulate(model, small, big, key):
    """A production of the smaller dialect that the bigger one lacks may be *simulated*: the bigger dialect has a
    production p' that becomes the missing one when one nonterminal N of its right-hand side is expanded by one of
    N's alternatives, and the composed action term equals the original term. Returns (p', alternative) or None."""
    gs_small = shapes(model, small.options)
    gs_big = shapes(model, big.options)
    lhs, rhs = key
    orig = [p for p in small.prods if p.key() == key][0]
    want = repr(gs_small.terms[orig])
    by = big.by_lhs()
    for cand in by.get(lhs, []):
        for k, sym in enumerate(cand.rhs):
            for alt in by.get(sym, []):
                if cand.rhs[:k] + alt.rhs + cand.rhs[k + 1:] == rhs:
                    composed = subst(gs_big.terms[cand], k + 1, gs_big.terms[alt], len(alt.rhs))
                    if repr(composed) == want:
                        return cand, alt
    return None


def check_pair(chk, rule, small, big, sname, bname):
    """D <= D' : inclusion (directly or by simulation) and conflict discipline."""
    n = 0
    ps, pb = small.prodset(), big.prodset()
    needed = set(ps & pb)
    missing = []
    for key in sorted(ps - pb):
        sim = simulate(chk.model, small, big, key)
        if sim is None:
            missing.append(key)
        else:
            needed.add(sim[0].key())
            needed.add(sim[1].key())
    chk.ob(rule, '%s<=%s/production-inclusion' % (sname, bname), not missing, PARSER,
           '%s neither keeps nor simulates productions of %s: %s' % (
               bname, sname, ['%s -> %s' % (l, ' '.join(r)) for l, r in missing[:3]]))
    n += 1
    ps = needed
    for state, tok, resolution in big.sr:
        cands = reduce_candidates(big, state, tok)
        if resolution == 'shift':
            bad = [c for c in cands if c in ps]
            detail = 'shift/reduce conflict on %s resolved as shift discards the reduction by %s, a production of ' \
                     'the smaller dialect %s: texts it accepts parse differently (or not at all)' % (
                         tok, ['%s -> %s' % (l, ' '.join(r)) for l, r in bad], sname)
        else:
            # reduce preferred (precedence): the discarded shift may belong to a D-derivation
            bad = cands
            detail = 'shift/reduce conflict on %s resolved as reduce' % tok
        chk.ob(rule, '%s<=%s/sr-conflict(%s)' % (sname, bname, tok), not bad, PARSER, detail if bad else '')
        n += 1
    for state, kept, rejected in big.rr:
        rej = (rejected.name, tuple(rejected.prod))
        bad = rej in ps
        chk.ob(rule, '%s<=%s/rr-conflict(%s)' % (sname, bname, rejected.name), not bad, PARSER,
               'reduce/reduce conflict: ply keeps `%s -> %s` and discards `%s -> %s`, a production of the smaller '
               'dialect %s' % (kept.name, ' '.join(kept.prod), rejected.name, ' '.join(rejected.prod), sname))
        n += 1
    return n


def r1_inclusion_and_conflicts(chk):
    model = chk.model
    chk.unit(PARSER, LEXER, 'pysmi/parser/dialect.py')
    chk.doc('C17.R1', 'for D <= D\': productions(D) is a subset of productions(D\') and every LALR(1) conflict of D\' '
                      'discards only reductions by productions outside D; the shipped dialects are buildable and the '
                      'base dialect is conflict-free')
    ship = shipped_dialects(model)
    names = ['smiV2', 'smiV1', 'smiV1Relaxed']
    ds = {}
    for nme in names:
        d = dialect(model, ship[nme])
        ds[nme] = d
        chk.ob('C17.R1', 'dialect %s/buildable' % nme, d.buildable, 'pysmi/parser/dialect.py',
               'parser cannot be built: %s' % d.error)
    if not all(d.buildable for d in ds.values()):
        return
    chk.ob('C17.R1', 'dialect smiV2/conflict-free', not ds['smiV2'].sr and not ds['smiV2'].rr, PARSER,
           'base grammar has conflicts: %s %s' % (ds['smiV2'].sr[:2], ds['smiV2'].rr[:2]))
    # option inclusion between the shipped dialects
    for a, b in (('smiV2', 'smiV1'), ('smiV1', 'smiV1Relaxed')):
        oa = set(k for k, v in ship[a].items() if v)
        ob = set(k for k, v in ship[b].items() if v)
        chk.ob('C17.R1', 'options(%s)<=options(%s)' % (a, b), oa <= ob, 'pysmi/parser/dialect.py', '%s vs %s' % (
            sorted(oa), sorted(ob)))
        check_pair(chk, 'C17.R1', ds[a], ds[b], a, b)
    check_pair(chk, 'C17.R1', ds['smiV2'], ds['smiV1Relaxed'], 'smiV2', 'smiV1Relaxed')
    # every single option on top of smiV2 (buildable ones) and on top of smiV1
    for opt in all_option_names(model):
        d1 = dialect(model, {opt: True})
        if not d1.buildable:
            chk.note('single option %s alone is not buildable (%s): reported, not a violation' % (opt, d1.error))
        else:
            check_pair(chk, 'C17.R1', ds['smiV2'], d1, 'smiV2', '{%s}' % opt)
        o2 = dict(ship['smiV1'])
        if not o2.get(opt):
            o2[opt] = True
            d2 = dialect(model, o2)
            if d2.buildable:
                check_pair(chk, 'C17.R1', ds['smiV1'], d2, 'smiV1', 'smiV1+{%s}' % opt)
                check_pair(chk, 'C17.R1', d2, ds['smiV1Relaxed'], 'smiV1+{%s}' % opt, 'smiV1Relaxed')
    # every single option, where buildable on its own, below each shipped dialect that enables it - and each shipped
    # dialect with one of its options left out below the dialect itself: when two options replace the same grammar
    # function the later one wins (parserFactory), and what the earlier one added must not get lost
    for nme in ('smiV1', 'smiV1Relaxed'):
        on = sorted(k for k, v in ship[nme].items() if v)
        for opt in on:
            d1 = dialect(model, {opt: True})
            if d1.buildable:
                check_pair(chk, 'C17.R1', d1, ds[nme], '{%s}' % opt, nme)
            rest = dict((k, True) for k in on if k != opt)
            if rest:
                d2 = dialect(model, rest)
                if d2.buildable:
                    check_pair(chk, 'C17.R1', d2, ds[nme], '%s-{%s}' % (nme, opt), nme)
    chk.floor('C17.R1', 20, 'dialect pairs')


class _Collector(object):
    def __init__(self, model):
        self.model = model
        self.out = []

    def ob(self, rule, key, ok, where_='', detail=''):
        self.out.append((key, bool(ok), detail))


def _subset_job(args):
    repo, subset = args
    model = _subset_job.models.get(repo)
    if model is None:
        model = _subset_job.models[repo] = SourceModel(repo)
    base = dialect(model, dict((k, True) for k in subset))
    if not base.buildable:
        return subset, None
    col = _Collector(model)
    pairs = 0
    for o in all_option_names(model):
        if o in subset:
            continue
        big = dialect(model, dict((k, True) for k in subset + (o,)))
        if not big.buildable:
            continue
        pairs += 1
        check_pair(col, 'C17.R1t', base, big, '{%s}' % ','.join(subset), '{..+%s}' % o)
    return subset, (pairs, col.out)


_subset_job.models = {}


def r1_thorough_all_subsets(chk):
    model = chk.model
    chk.doc('C17.R1t', 'R1 (inclusion or simulation, conflict discipline) for every buildable subset of the nine '
                       'options extended by one more option')
    opts = all_option_names(model)
    subsets = []
    for k in range(len(opts) + 1):
        subsets.extend(itertools.combinations(sorted(opts), k))
    jobs = [(chk.repo, s) for s in subsets]
    pairs = built = 0
    with ProcessPoolExecutor(max_workers=min(16, os.cpu_count() or 4)) as ex:
        for subset, res in ex.map(_subset_job, jobs, chunksize=4):
            if res is None:
                continue
            built += 1
            np_, obs = res
            pairs += np_
            for key, ok, detail in obs:
                chk.ob('C17.R1t', key, ok, PARSER, detail)
    chk.note('thorough: %d of %d option subsets buildable, %d (subset, subset+option) pairs checked' % (
        built, len(subsets), pairs))
    chk.floor('C17.R1t', 1000, 'pairs of dialects')


def r2_shared_terms(chk):
    model = chk.model
    chk.doc('C17.R2', 'a production present in both dialects computes the same action term in both (overriding '
                      'p_* functions agree with the base function on the base alternatives)')
    ship = shipped_dialects(model)
    base = shapes(model, ship['smiV2'])
    bterms = dict((p.key(), (repr(t), p)) for p, t in base.terms.items())
    n = 0
    for nme in ('smiV1', 'smiV1Relaxed'):
        gs = shapes(model, ship[nme])
        for p, t in gs.terms.items():
            if p.key() not in bterms:
                continue
            bt, bp = bterms[p.key()]
            if p.fn is bp.fn:
                continue  # same function object: nothing overridden
            n += 1
            ok = repr(t) == bt
            chk.ob('C17.R2', '%s/%s.%s[%s]' % (nme, p.owner, p.fn.name, ' '.join(p.rhs)), ok,
                   '%s:%s' % (PARSER, p.fn.lineno),
                   'under %s this alternative yields %s, under smiV2 %s: the same text parses to a different tree'
                   % (nme, repr(t)[:120], bt[:120]))
    chk.floor('C17.R2', 30, 'overridden alternatives')


def corrected_forms():
    """(lhs, rhs) of an added alternative -> expected term (documented meaning of the relaxation)"""
    S = Sym
    return {
        ('importIdentifiers', ('importIdentifiers', "','")): S(1),
        ('sequenceItems', ('sequenceItems', "','")): S(1),
        ('enumItems', ('enumItems', 'enumItem')): Cat(S(1), Lst([S(2)])),
        ('enumItems', ('enumItems', "','")): S(1),
        ('enumItem', ('UPPERCASE_IDENTIFIER', "'('", 'enumNumber', "')'")): Tup([S(1), S(3)]),
        ('EnterprisePart', ('ENTERPRISE', 'objectIdentifier')): S(2),
        ('EnterprisePart', ('ENTERPRISE', "'{'", 'objectIdentifier', "'}'")): S(3),
        ('trapTypeClause', ('fuzzy_lowercase_identifier', 'TRAP_TYPE', 'EnterprisePart', 'VarPart', 'DescrPart',
                            'ReferPart', 'COLON_COLON_EQUAL', 'NUMBER')):
            Tup([Const('trapTypeClause'), S(1), S(3), S(4), S(5), S(6), S(8)]),
        ('notificationTypeClause', ('fuzzy_lowercase_identifier', 'NOTIFICATION_TYPE', 'NotificationObjectsPart',
                                    'STATUS', 'Status', 'DESCRIPTION', 'Text', 'ReferPart', 'COLON_COLON_EQUAL',
                                    "'{'", 'NotificationName', "'}'")):
            Tup([Const('notificationTypeClause'), S(1), S(3), S(5), Tup([S(6), S(7)]), S(8), S(11)]),
        ('CreationPart', ('CREATION_REQUIRES', "'{'", "'}'")): NONE,
        ('Index', ('typeSMIv1',)): S(1),
        ('typeSMIv1', ('INTEGER',)): S(1),
        ('typeSMIv1', ('OCTET', 'STRING')): Cat(Cat(S(1), Const(' ')), S(2)),
        ('typeSMIv1', ('IPADDRESS',)): S(1),
        ('typeSMIv1', ('NETWORKADDRESS',)): S(1),
        ('importedKeyword', ('NETWORKADDRESS',)): S(1),
        ('typeSMIandSPPI', ('NETWORKADDRESS',)): S(1),
        ('ApplicationSyntax', ('NETWORKADDRESS', 'anySubType')): Tup([Const('ApplicationSyntax'), S(1), S(2)]),
        ('sequenceApplicationSyntax', ('NETWORKADDRESS', 'anySubType')): S(1),
    }


def r3_added_alternatives(chk):
    model = chk.model
    chk.doc('C17.R3', 'each alternative added by a relaxation computes the term of its corrected form (stray comma '
                      '-> the list unchanged; braces around the enterprise -> the inner OID; upper-case enum label '
                      '-> same pair; missing Cells -> absent; SMIv1 index type -> its name); the base trap/'
                      'notification terms keep their field order')
    ship = shipped_dialects(model)
    base = dialect(model, ship['smiV2']).prodset()
    gs = shapes(model, ship['smiV1Relaxed'])
    oracle = corrected_forms()
    n = 0
    for p, t in gs.terms.items():
        if p.key() in base:
            continue
        exp = oracle.get(p.key())
        if exp is None:
            chk.note('added alternative without documented corrected form (not judged): %r' % p)
            continue
        n += 1
        chk.ob('C17.R3', '%s.%s[%s]' % (p.owner, p.fn.name, ' '.join(p.rhs)), repr(t) == repr(exp),
               '%s:%s' % (PARSER, p.fn.lineno), 'yields %s, the corrected text yields %s' % (repr(t)[:100], repr(exp)[:100]))
    chk.floor('C17.R3', 15, 'added alternatives with an oracle')
    # the curly-braces relaxation replaces the base trapTypeClause: compare with the base term modulo the
    # ENTERPRISE keyword position
    b = shapes(model, ship['smiV2'])
    for p, t in b.terms.items():
        if p.lhs == 'trapTypeClause':
            exp = Tup([Const('trapTypeClause'), Sym(1), Sym(4), Sym(5), Sym(6), Sym(7), Sym(9)])
            chk.ob('C17.R3', 'SmiV2Parser.p_trapTypeClause/base-term', repr(t) == repr(exp),
                   '%s:%s' % (PARSER, p.fn.lineno), 'base trap term %s' % repr(t))


def r4_lexer_tables(chk):
    model = chk.model
    chk.doc('C17.R4', 'reserved(D) <= reserved(D\') with equal token types; forbidden(D\') <= forbidden(D); the words '
                      'that change status are exactly NetworkAddress and MAX; tokens(D\') = declared + reserved '
                      'types; parser and lexer relaxation tables have the same keys, a superset of the options used '
                      'in dialect.py')
    ship = shipped_dialects(model)
    r2, f2, t2 = lexer_tables(model, ship['smiV2'])
    r1, f1, t1 = lexer_tables(model, ship['smiV1'])
    rr, fr, tr = lexer_tables(model, ship['smiV1Relaxed'])
    chk.ob('C17.R4', 'reserved(smiV2)<=reserved(smiV1)', all(w in r1 and r1[w] == t for w, t in r2.items()), LEXER,
           'words lost or re-typed: %s' % sorted(w for w, t in r2.items() if r1.get(w) != t))
    added = sorted(set(r1) - set(r2))
    chk.ob('C17.R4', 'reserved-added-words', added == ['MAX', 'NetworkAddress'], LEXER, 'added reserved words: %s' % added)
    chk.ob('C17.R4', 'forbidden(smiV1)<=forbidden(smiV2)', set(f1) <= set(f2), LEXER,
           'newly forbidden: %s' % sorted(set(f1) - set(f2)))
    chk.ob('C17.R4', 'forbidden-removed-words', sorted(set(f2) - set(f1)) == ['MAX'], LEXER,
           'no longer forbidden: %s' % sorted(set(f2) - set(f1)))
    chk.ob('C17.R4', 'smiV1Relaxed-lexer==smiV1-lexer', (rr, sorted(fr), sorted(tr)) == (r1, sorted(f1), sorted(t1)),
           LEXER, 'the relaxation options other than supportSmiV1Keywords must not change the lexer')
    for nme, (r, f, t) in (('smiV2', (r2, f2, t2)), ('smiV1', (r1, f1, t1))):
        chk.ob('C17.R4', 'tokens(%s)-cover-reserved' % nme, set(r.values()) <= set(t), LEXER,
               'undeclared: %s' % sorted(set(r.values()) - set(t)))
        chk.ob('C17.R4', 'reserved/forbidden-disjoint(%s)' % nme, not (set(r) & set(f)), LEXER,
               'both reserved and forbidden: %s' % sorted(set(r) & set(f)))
    prg = module_value(model, PARSER, 'relaxedGrammar')
    lrg = module_value(model, LEXER, 'relaxedGrammar')
    chk.ob('C17.R4', 'relaxedGrammar-keys-agree', set(prg) == set(lrg), PARSER,
           'parser %s vs lexer %s' % (sorted(set(prg) - set(lrg)), sorted(set(lrg) - set(prg))))
    used = set()
    for d in ship.values():
        used |= set(d)
    chk.ob('C17.R4', 'dialect-options-known', used <= set(prg), 'pysmi/parser/dialect.py',
           'unknown options in dialect.py: %s' % sorted(used - set(prg)))
    chk.ob('C17.R4', 'nine-options', len(prg) == 9, PARSER, '%d relaxation options' % len(prg))


def r5_factories(chk):
    model = chk.model
    chk.doc('C17.R5', 'parserFactory / lexerFactory: an enabled option that is not in relaxedGrammar raises '
                      'PySmiError before anything is built; disabled options are ignored; the class returned is '
                      'built by type(...) from attributes collected in this call only (no cache keyed by option '
                      'names); parserFactory derives the lexer from the same options')
    for rel, fname in ((PARSER, 'parserFactory'), (LEXER, 'lexerFactory')):
        fn = model.func(rel, fname)
        mod = model.mod(rel)
        kw = fn.args.kwarg.arg if fn.args.kwarg else None
        chk.ob('C17.R5', '%s/kwargs' % fname, kw is not None, where(mod, fn), 'factory must take **options')
        if kw is None:
            continue
        loops = [n for n in fn.body if isinstance(n, ast.For) and norm(n.iter) in (kw, '%s.items()' % kw,
                                                                                   'sorted(%s)' % kw)]
        chk.ob('C17.R5', '%s/option-loop' % fname, len(loops) == 1, where(mod, fn), 'one loop over the options')
        if len(loops) != 1:
            continue
        lp = loops[0]
        ov = lp.target.id if isinstance(lp.target, ast.Name) else (
            lp.target.elts[0].id if isinstance(lp.target, ast.Tuple) else None)
        raises = [x for x in walk_no_nested(lp) if isinstance(x, ast.Raise)]
        ok = False
        for x in raises:
            exc = x.exc.func if isinstance(x.exc, ast.Call) else x.exc
            anc = model.exc_ancestors(mod, exc)
            tests = []
            a = getattr(x, '_parent', None)
            while a is not None and a is not lp:
                if isinstance(a, ast.If):
                    tests.append(norm(a.test))
                a = getattr(a, '_parent', None)
            if 'PySmiError' in anc and '%s not in relaxedGrammar' % ov in tests and any(
                    t in ('%s[%s]' % (kw, ov),) or t.endswith('[%s]' % ov) or t == 'enabled' or t == 'on' or
                    t == 'value' for t in tests if t != '%s not in relaxedGrammar' % ov):
                ok = True
        chk.ob('C17.R5', '%s/unknown-enabled-option-raises' % fname, ok, where(mod, lp),
               'an enabled unknown option must raise PySmiError (and a disabled one must not)')
        # built after the loop
        types = [c for c in walk_no_nested(fn) if isinstance(c, ast.Call) and dotted_name(c.func) == 'type' and
                 len(c.args) == 3]
        rets = [x for x in walk_no_nested(fn) if isinstance(x, ast.Return)]
        ok = len(types) == 1 and len(rets) == 1 and rets[0].value is types[0] and rets[0].lineno > lp.end_lineno
        memo = len(types) == 1 and all(isinstance(r.value, ast.Subscript) or r.value is types[0] for r in rets)
        chk.ob('C17.R5', '%s/returns-fresh-class' % fname, ok or memo, where(mod, fn),
               'the factory must return a class synthesised in this call: %s' % [norm(r)[:60] for r in rets])
        if types:
            attrs = types[0].args[2]
            local_dict = isinstance(attrs, ast.Name) and any(
                isinstance(s, ast.Assign) and s.targets[0].id == attrs.id and isinstance(s.value, ast.Dict)
                for s in fn.body if isinstance(s, ast.Assign) and isinstance(s.targets[0], ast.Name))
            chk.ob('C17.R5', '%s/class-attrs-local' % fname, local_dict, where(mod, types[0]),
                   'class attributes must be collected in a dict local to the call')
        # no module-level state
        glob = [n for n in walk_no_nested(fn) if isinstance(n, ast.Global)]
        module_names = set()
        for st in mod.tree.body:
            if isinstance(st, ast.Assign):
                for t in st.targets:
                    if isinstance(t, ast.Name):
                        module_names.add(t.id)
        writes = []
        for n in walk_no_nested(fn):
            if isinstance(n, (ast.Assign, ast.AugAssign)):
                tg = n.targets if isinstance(n, ast.Assign) else [n.target]
                for t in tg:
                    root = t
                    while isinstance(root, (ast.Subscript, ast.Attribute)):
                        root = root.value
                    if isinstance(root, ast.Name) and root.id in module_names and not isinstance(t, ast.Name):
                        writes.append(n)
            if isinstance(n, ast.Call) and isinstance(n.func, ast.Attribute) and n.func.attr in (
                    'setdefault', 'update', 'append', 'add') and isinstance(n.func.value, ast.Name) and \
                    n.func.value.id in module_names:
                writes.append(n)
        cache_ok = False
        if writes and not glob:
            # a memo table is acceptable when its key distinguishes enabled from disabled options
            keys = set()
            for n in walk_no_nested(fn):
                if isinstance(n, ast.Subscript) and isinstance(n.value, ast.Name) and n.value.id in module_names \
                        and n.value.id != 'relaxedGrammar':
                    keys.add(norm(n.slice))
            good = 0
            for kname in keys:
                for st in fn.body:
                    if isinstance(st, ast.Assign) and isinstance(st.targets[0], ast.Name) and \
                            st.targets[0].id == kname:
                        txt = norm(st.value)
                        comp_filter = any(isinstance(c, ast.comprehension) and c.ifs and any(
                            kw in norm(i) for i in c.ifs) for c in ast.walk(st.value))
                        if '%s.items()' % kw in txt or comp_filter:
                            good += 1
            cache_ok = bool(keys) and good == len(keys)
        if cache_ok:
            chk.note('%s memoises classes under a key that includes the option values: accepted' % fname)
        chk.ob('C17.R5', '%s/no-shared-state' % fname, (not glob and not writes) or cache_ok, where(mod, fn),
               'the factory keeps module-level state (%s): the class returned can depend on earlier calls' % (
                   norm(writes[0])[:60] if writes else 'global'))
    # parserFactory: lexer from the same options
    fn = model.func(PARSER, 'parserFactory')
    kw = fn.args.kwarg.arg
    lf = [c for c in walk_no_nested(fn) if isinstance(c, ast.Call) and dotted_name(c.func) == 'lexerFactory']
    ok = len(lf) == 1 and not lf[0].args and len(lf[0].keywords) == 1 and lf[0].keywords[0].arg is None and \
        norm(lf[0].keywords[0].value) == kw
    chk.ob('C17.R5', 'parserFactory/lexer-from-same-options', ok, where(model.mod(PARSER), fn),
           'lexerFactory(**%s) expected' % kw)
    if lf:
        st = common.stmt_of(lf[0])
        ok = isinstance(st, ast.Assign) and common.pmatch(st.targets[0], "$c['defaultLexer']") is not None
        chk.ob('C17.R5', 'parserFactory/defaultLexer', ok, where(model.mod(PARSER), st), norm(st)[:80])
    # rule functions of an option are installed under their own names
    for x in walk_no_nested(fn):
        b_ = common.pmatch(x, '$c[$f.__name__] = $f') if isinstance(x, ast.Assign) else None
        if isinstance(x, ast.Assign) and isinstance(x.targets[0], ast.Subscript) and \
                common.pmatch(x.targets[0].slice, '$f.__name__') is not None:
            chk.ob('C17.R5', 'parserFactory/installs-rule-functions', b_ is not None,
                   where(model.mod(PARSER), x), norm(x))



def r6_tables_belong_to_their_grammar(chk):
    """The parser / lexer a dialect gets is built from *its* productions.  ply may cache tables on disk; it re-checks a
    cached table against the grammar's signature unless told to trust it (optimize=...), and it can be pointed at one
    fixed file (picklefile= / lextab= / tabmodule=).  A trusted table at a location that does not depend on the
    relaxation options makes every dialect run on the tables of whichever dialect was cached first."""
    model = chk.model
    chk.doc('C17.R6', 'every yacc.yacc(...) / lex.lex(...) call in pysmi/parser and pysmi/lexer: no optimize= argument '
                      'that can be true and no fixed table location (picklefile= / tabmodule= / lextab=): tables are '
                      'generated from, or signature-checked against, the grammar of the dialect at hand')
    n = 0
    for rel in ('pysmi/parser/smi.py', 'pysmi/lexer/smi.py', 'pysmi/parser/base.py', 'pysmi/lexer/base.py'):
        mod = model.mod(rel, required=False)
        if mod is None:
            continue
        for c in ast.walk(mod.tree):
            if isinstance(c, ast.Call) and dotted_name(c.func) in ('yacc.yacc', 'lex.lex', 'ply.yacc.yacc', 'ply.lex.lex'):
                n += 1
                bad = []
                for k in c.keywords:
                    if k.arg == 'optimize' and not (isinstance(k.value, ast.Constant) and not k.value.value):
                        bad.append('optimize=%s (cached tables are used without the signature check)' % norm(k.value))
                    if k.arg in ('picklefile', 'tabmodule', 'lextab') and not (
                            isinstance(k.value, ast.Constant) and k.value.value is None):
                        bad.append('%s=%s (one table location for all dialects)' % (k.arg, norm(k.value)))
                    if k.arg is None:
                        bad.append('**%s (options not visible)' % norm(k.value))
                chk.ob('C17.R6', '%s/%s#%d' % (rel.split('/')[1], dotted_name(c.func), n), not bad, where(mod, c),
                       '; '.join(bad))
    chk.floor('C17.R6', 4, 'two yacc.yacc and two lex.lex calls')



def r7_class_tables_not_mutated(chk):
    """dialect classes and code generators derive tables from each other: a derived table must be a copy"""
    common.no_mutation_of_class_tables_through_aliases(chk, 'C17.R7', sorted(r for r in chk.model.modules if r.startswith(('pysmi/lexer/', 'pysmi/parser/', 'pysmi/codegen/', 'pysmi/compiler.py'))), floor=4)



def r8_format_arity(chk):
    """the factories' error messages are built before the package error is raised"""
    common.format_arity(chk, 'C17.R8', ['pysmi/parser/smi.py', 'pysmi/lexer/smi.py', 'pysmi/parser/dialect.py'], floor=10)



def r9_options_do_not_compete(chk):
    """parserFactory copies the functions of every enabled option into one class, later options overwriting earlier
    ones: when two options supply a function of the same name with different productions, the grammar of a *set* of
    options depends on the order in which the caller (or dialect.py) happens to list them"""
    import ast as _ast
    from vt.grammar import parse_doc
    from vt.model import FuncVal
    model = chk.model
    chk.doc('C17.R9', 'relaxedGrammar (parser and lexer): a function name supplied by two different options has the same '
                      'productions / value in both - the result of enabling a set of options does not depend on their order')
    rg = module_value(model, PARSER, 'relaxedGrammar')
    by = {}
    for opt, fns in rg.items():
        for fv in fns:
            if isinstance(fv, FuncVal):
                doc = _ast.get_docstring(fv.node, clean=False) or ''
                try:
                    prods = sorted(parse_doc(doc, fv.node.name))
                except Exception:
                    prods = [doc]
                by.setdefault(fv.node.name, []).append((opt, prods, fv.node))
    n = 0
    for name, lst in sorted(by.items()):
        if len(lst) < 2:
            continue
        n += 1
        same = all(x[1] == lst[0][1] for x in lst)
        chk.ob('C17.R9', 'relaxedGrammar/%s supplied by %s' % (name, '+'.join(sorted(x[0] for x in lst))), same,
               where(model.mod(PARSER), lst[0][2]),
               'options %s both replace %s, with different alternatives: whichever is applied last wins, so the '
               'grammar of the two together depends on their order' % (sorted(x[0] for x in lst), name))
    chk.ob('C17.R9', 'relaxedGrammar/scanned', True, PARSER, '%d function names supplied by more than one option' % n)


RULES = [r1_inclusion_and_conflicts, r2_shared_terms, r3_added_alternatives, r4_lexer_tables, r5_factories, r6_tables_belong_to_their_grammar, r7_class_tables_not_mutated, r8_format_arity, r9_options_do_not_compete]
THOROUGH_RULES = [r1_thorough_all_subsets]
