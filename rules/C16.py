"""C16 - SMIv1 modules compile to the same objects as their SMIv2 transliteration."""
import ast
import re

from vt.grammar import shipped_dialects, lexer_tables, PARSER, LEXER
from vt.model import walk_no_nested, norm, dotted_name, class_attr_value
from vt.runner import where, AnalysisError
from rules import common, ir
from rules.C17 import shapes

EXPLANATION = (
    "Table-level agreement between the SMIv1 and SMIv2 spellings: the lexer maps Counter/Gauge to the token types of "
    "Counter32/Gauge32 in both dialects and reserves NetworkAddress for SMIv1, where the grammar accepts it wherever "
    "IpAddress is accepted; the two type-translation tables (PySnmpCodeGen.SMI_TYPES, SymtableCodeGen.typeClasses) "
    "are equal and contain the SMIv1 names; ACCESS and MAX-ACCESS build the same tuple; the import conversion table "
    "(evaluated statically) covers the six SMIv1 base modules, maps each symbol to exactly one (module, symbol), "
    "renames only the symbols the type tables rename, and sends each symbol to the SMIv2 home of its group; both "
    "genImports apply the table the same way and only remove the converted symbols; a TRAP-TYPE becomes a "
    "notificationtype with OID <enterprise>.0.<n> and its VARIABLES as objects.")
ASSUMPTIONS = ["equality of compiled outputs for paired texts needs execution and is not decided",
               "oracle for SMIv2 homes: RFC 2578/2579 (SMI, TC), RFC 3418 (system, snmp), RFC 2863 (interfaces), "
               "RFC 4293 (ip, icmp), RFC 4022 (tcp), RFC 4113 (udp); egp*, at*, ipRoute* stay in RFC1213-MIB"]
TECHNIQUE = 'static evaluation of the conversion tables + oracle comparison; sibling AST equality; grammar alternative sets'

BASE = 'pysmi/codegen/base.py'
SIX = ['RFC1155-SMI', 'RFC1065-SMI', 'RFC-1212', 'RFC-1215', 'RFC1213-MIB', 'RFC1158-MIB']


def home_of(sym):
    """SMIv2 home module of an RFC1213/1158 symbol by its group prefix"""
    if sym in ('DisplayString', 'PhysAddress'):
        return 'SNMPv2-TC'
    if sym in ('mib-2', 'transmission', 'internet', 'directory', 'mgmt', 'experimental', 'private', 'enterprises',
               'OBJECT-TYPE', 'ObjectName', 'ObjectSyntax', 'SimpleSyntax', 'ApplicationSyntax', 'NetworkAddress',
               'IpAddress', 'Counter', 'Gauge', 'TimeTicks', 'Opaque', 'TRAP-TYPE', 'nullSpecific'):
        return 'SNMPv2-SMI'
    if sym.startswith('egp') or sym.startswith('ipRout') or sym.startswith('at'):
        return 'RFC1213-MIB'
    for prefix, mod in (('sys', 'SNMPv2-MIB'), ('snmp', 'SNMPv2-MIB'), ('interfaces', 'IF-MIB'), ('if', 'IF-MIB'),
                        ('icmp', 'IP-MIB'), ('ip', 'IP-MIB'), ('tcp', 'TCP-MIB'), ('udp', 'UDP-MIB')):
        if sym.startswith(prefix):
            return mod
    return None


def r1_lexer_aliases(chk):
    model = chk.model
    chk.unit(LEXER, PARSER, BASE)
    chk.doc('C16.R1', 'Counter -> COUNTER32 and Gauge -> GAUGE32 in both reserved tables (same types as Counter32/'
                      'Gauge32); NetworkAddress is reserved under SMIv1 and is an alternative next to IPADDRESS in '
                      'importedKeyword, typeSMIandSPPI, ApplicationSyntax and sequenceApplicationSyntax')
    ship = shipped_dialects(model)
    for dname in ('smiV2', 'smiV1'):
        reserved, forbidden, tokens = lexer_tables(model, ship[dname])
        for a, b in (('Counter', 'Counter32'), ('Gauge', 'Gauge32')):
            chk.ob('C16.R1', '%s/%s-alias' % (dname, a), reserved.get(a) is not None and reserved.get(a) == reserved.get(b),
                   LEXER, '%s -> %s, %s -> %s' % (a, reserved.get(a), b, reserved.get(b)))
    r1, f1, t1 = lexer_tables(model, ship['smiV1'])
    chk.ob('C16.R1', 'smiV1/NetworkAddress-reserved', r1.get('NetworkAddress') == 'NETWORKADDRESS' and
           'NETWORKADDRESS' in t1, LEXER, 'NetworkAddress -> %s' % r1.get('NetworkAddress'))
    gs = shapes(model, ship['smiV1'])
    for nt in ('importedKeyword', 'typeSMIandSPPI', 'ApplicationSyntax', 'sequenceApplicationSyntax'):
        alts = gs.by_lhs.get(nt, [])
        ip = [p for p in alts if p.rhs and p.rhs[0] == 'IPADDRESS']
        na = [p for p in alts if p.rhs and p.rhs[0] == 'NETWORKADDRESS']
        ok = len(ip) == 1 and len(na) == 1 and ip[0].rhs[1:] == na[0].rhs[1:] and \
            repr(gs.terms[ip[0]]) == repr(gs.terms[na[0]])
        chk.ob('C16.R1', 'smiV1/%s-NetworkAddress' % nt, ok, PARSER,
               'NetworkAddress must be accepted exactly where IpAddress is, with the same action')


def r2_type_tables(chk):
    model = chk.model
    chk.doc('C16.R2', 'PySnmpCodeGen.SMI_TYPES == SymtableCodeGen.typeClasses; both map Counter -> Counter32, Gauge '
                      '-> Gauge32, NetworkAddress/NETWORKADDRESS -> IpAddress, INTEGER -> Integer32; '
                      'IntermediateCodeGen.SMI_TYPES is a sub-table of them')
    a = class_attr_value(model, 'pysmi/codegen/pysnmp.py', 'PySnmpCodeGen', 'SMI_TYPES')
    b = class_attr_value(model, ir.SYMTAB, 'SymtableCodeGen', 'typeClasses')
    c = class_attr_value(model, ir.INTER, 'IntermediateCodeGen', 'SMI_TYPES')
    chk.ob('C16.R2', 'SMI_TYPES==typeClasses', a == b, 'pysmi/codegen/pysnmp.py',
           'differences: %s' % sorted(k for k in set(a) | set(b) if a.get(k) != b.get(k)))
    need = {'Counter': 'Counter32', 'Gauge': 'Gauge32', 'NetworkAddress': 'IpAddress', 'NETWORKADDRESS': 'IpAddress',
            'INTEGER': 'Integer32', 'COUNTER32': 'Counter32', 'GAUGE32': 'Gauge32', 'IPADDRESS': 'IpAddress'}
    for tbl, name in ((a, 'SMI_TYPES'), (b, 'typeClasses')):
        bad = sorted(k for k, v in need.items() if tbl.get(k) != v)
        chk.ob('C16.R2', '%s/smiv1-entries' % name, not bad, ir.SYMTAB, 'wrong or missing: %s' % bad)
    chk.ob('C16.R2', 'IntermediateCodeGen.SMI_TYPES-subtable', all(a.get(k) == v for k, v in c.items()), ir.INTER,
           'entries that disagree with the full table: %s' % sorted(k for k, v in c.items() if a.get(k) != v))
    # the template renders syntax.type through the IR, whose names come from genSimpleSyntax: SMI_TYPES lookup there
    ci = model.cls(ir.INTER, 'IntermediateCodeGen')
    o, fn = ci.find_method('genSimpleSyntax')
    ok = any(common.pmatch(s, '$t = self.SMI_TYPES.get($t, $t)') is not None for s in walk_no_nested(fn)
             if isinstance(s, ast.Assign))
    chk.ob('C16.R2', 'genSimpleSyntax/translates-type-names', ok, where(ci.mod, fn), '')


def r3_access(chk):
    model = chk.model
    chk.doc('C16.R3', 'MaxAccessPart: `MAX-ACCESS x` and `ACCESS x` both yield ("MaxAccessPart", x); the handler '
                      'returns it as maxaccess')
    for dname in ('smiV2', 'smiV1'):
        gs = shapes(model, shipped_dialects(model)[dname])
        alts = gs.by_lhs.get('MaxAccessPart', [])
        rhs = sorted(p.rhs for p in alts)
        terms = set(repr(gs.terms[p]) for p in alts)
        chk.ob('C16.R3', '%s/MaxAccessPart' % dname, rhs == [('ACCESS', 'Access'), ('MAX_ACCESS', 'Access')] and
               terms == set(["('MaxAccessPart', p2)"]), PARSER, '%s -> %s' % (rhs, sorted(terms)))
    ci = model.cls(ir.INTER, 'IntermediateCodeGen')
    o, fn = ci.find_method('genMaxAccess')
    rets = [x for x in walk_no_nested(fn) if isinstance(x, ast.Return)]
    chk.ob('C16.R3', 'genMaxAccess', len(rets) == 1 and norm(rets[0].value) == '%s[0]' % fn.args.args[1].arg,
           where(ci.mod, fn), '')


def r4_import_table(chk):
    model = chk.model
    chk.doc('C16.R4', 'convertImportv2 (evaluated statically): has the six SMIv1 base modules; each symbol maps to '
                      'exactly one (module, symbol); a symbol is renamed only as the type tables rename it; the target '
                      'module is the SMIv2 home of the symbol\'s group; RFC1065-SMI and RFC1155-SMI share one table; '
                      'RFC1158-MIB covers at least what RFC1213-MIB covers for the symbols both define')
    conv = class_attr_value(model, BASE, 'AbstractCodeGen', 'convertImportv2')
    common_ = class_attr_value(model, BASE, 'AbstractCodeGen', 'commonSyms')
    types = class_attr_value(model, ir.SYMTAB, 'SymtableCodeGen', 'typeClasses')
    chk.ob('C16.R4', 'six-base-modules', all(m in conv for m in SIX), BASE, 'missing: %s' % sorted(
        m for m in SIX if m not in conv))
    n = 0
    for mod, table in sorted(conv.items()):
        for sym, targets in sorted(table.items()):
            n += 1
            if len(targets) != 1 or len(targets[0]) != 2:
                chk.ob('C16.R4', '%s/%s-single-target' % (mod, sym), False, BASE, 'targets: %r' % (targets,))
                continue
            tm, ts = targets[0]
            if ts != sym:
                ok = types.get(sym) == ts
                chk.ob('C16.R4', '%s/%s-rename' % (mod, sym), ok, BASE,
                       'import of %s is rewritten to %s but uses of %s are translated to %s' % (
                           sym, ts, sym, types.get(sym)))
            want = home_of(ts if ts != sym and home_of(ts) else sym)
            if ts in ('zeroDotZero',):
                want = 'SNMPv2-SMI'
            if ts == 'ipRouteTable':
                want = 'RFC1213-MIB'
            if want is None:
                chk.note('no home oracle for %s (%s)' % (sym, mod))
                continue
            chk.ob('C16.R4', '%s/%s-home' % (mod, sym), tm == want, BASE,
                   '%s imported from %s is redirected to %s, its SMIv2 home is %s' % (sym, mod, tm, want))
    chk.floor('C16.R4', 200, 'conversion table entries')
    chk.ob('C16.R4', 'RFC1065==RFC1155', conv.get('RFC1065-SMI') == conv.get('RFC1155-SMI'), BASE, '')
    # RFC1158-MIB: everything RFC1213-MIB converts and RFC1158 also defines (all but a few) must be converted too
    shared = common_.get('RFC1158-MIB/RFC1213-MIB', {})
    missing = sorted(k for k in shared if k not in conv.get('RFC1158-MIB', {}))
    chk.ob('C16.R4', 'RFC1158-MIB-covers-shared-table', not missing, BASE,
           'RFC1158-MIB is built from the SMI table only: %d symbols of the shared RFC1158/RFC1213 table (sysDescr, '
           'ifIndex, ...) are not redirected, so `IMPORTS sysDescr FROM RFC1158-MIB` keeps pointing at the '
           'never-compiled SMIv1 module' % len(missing))
    base_mibs = class_attr_value(model, BASE, 'AbstractCodeGen', 'baseMibs')
    chk.ob('C16.R4', 'baseMibs', all(m in base_mibs for m in SIX), BASE, '')


def r5_apply_table(chk):
    model = chk.model
    chk.doc('C16.R5', 'SymtableCodeGen.genImports and IntermediateCodeGen.genImports apply convertImportv2 with the '
                      'same code: every converted (module, symbol) adds its targets and is then removed from its '
                      'module\'s list - the module entry itself and unconverted symbols stay')
    parts = {}
    for rel, cname in ((ir.SYMTAB, 'SymtableCodeGen'), (ir.INTER, 'IntermediateCodeGen')):
        ci = model.cls(rel, cname)
        o, fn = ci.find_method('genImports')
        chk.subject(fn, '%s.genImports' % cname)
        head = []
        for st in fn.body:
            if isinstance(st, ast.For) and 'constImports' in norm(st.iter):
                break
            head.append(common.canon_text(st))
        parts[cname] = head
        p = fn.args.args[1].arg
        rem = [c for c in walk_no_nested(fn) if isinstance(c, ast.Call) and isinstance(c.func, ast.Attribute) and
               c.func.attr == 'remove']
        ok = len(rem) == 1 and common.pmatch(rem[0], '%s[$d[0]].remove($d[1])' % p) is not None
        chk.ob('C16.R5', '%s.genImports/removes-converted-symbol-only' % cname, ok, where(ci.mod, fn),
               'removal: %s' % [norm(r) for r in rem])
        for x in walk_no_nested(fn):
            bad = None
            if isinstance(x, ast.Delete) and any(isinstance(t, ast.Subscript) and norm(t.value) == p for t in x.targets):
                bad = x
            if isinstance(x, ast.Call) and isinstance(x.func, ast.Attribute) and norm(x.func.value) == p and \
                    x.func.attr in ('pop', 'popitem', 'clear'):
                bad = x
            if bad is not None:
                chk.ob('C16.R5', '%s.genImports/module-entry-removed %s' % (cname, norm(bad)[:40]), False,
                       where(ci.mod, bad), 'a whole module entry is dropped from the imports, taking the symbols that '
                                           'were not converted with it')
    chk.ob('C16.R5', 'genImports-conversion-agrees', parts.get('SymtableCodeGen') == parts.get('IntermediateCodeGen'),
           ir.SYMTAB, 'the conversion code of the two generators differs')


def r6_trap(chk):
    model = chk.model
    from rules.C01 import r4_trap
    r4_trap(chk, rule='C16.R6')
    clauses = ir.clause_model(model)
    c = clauses['trapTypeClause']
    chk.doc('C16.R6', 'TRAP-TYPE: OID <enterprise>.0.<n>, class notificationtype, VARIABLES rendered as objects')
    chk.ob('C16.R6', 'genTrapType/class', c.classes == ['notificationtype'], where(model.mod(ir.INTER), c.fn), '%s' % c.classes)
    st = [s for s in c.stores if s.key == ('objects',)]
    from rules.C01 import unpack_names
    un_ = unpack_names(c.fn)
    ok = len(st) == 1 and isinstance(st[0].value, ast.ListComp) and un_ is not None and \
        norm(st[0].value.generators[0].iter) == un_[2]
    chk.ob('C16.R6', 'genTrapType/variables-as-objects', ok, where(model.mod(ir.INTER), c.fn), '')
    gs = shapes(model, shipped_dialects(model)['smiV1'])
    t = {}
    for p in gs.d.prods:
        if p.lhs in ('VarTypes', 'Objects'):
            t.setdefault(p.lhs, {})[len(p.rhs)] = repr(gs.terms[p]).replace("'%s'" % p.lhs, "'TAG'")
    chk.ob('C16.R6', 'VarTypes-like-Objects', t.get('VarTypes') == t.get('Objects') and len(t.get('Objects', {})) == 2,
           PARSER, 'VARIABLES list is built as %s, OBJECTS list as %s' % (t.get('VarTypes'), t.get('Objects')))
    for p in gs.d.prods:
        if p.lhs == 'VarPart' and len(p.rhs) == 4:
            chk.ob('C16.R6', 'VarPart', repr(gs.terms[p]) == 'p3', '%s:%s' % (PARSER, p.fn.lineno), repr(gs.terms[p]))
    sym = model.cls(ir.SYMTAB, 'SymtableCodeGen')
    o, f = sym.find_method('genTrapType')
    st = [s for s in ir.record_stores(f) if s.key == ('type',)]
    chk.ob('C16.R6', 'SymtableCodeGen.genTrapType/type', len(st) == 1 and norm(st[0].value) == "'NotificationType'",
           where(sym.mod, f), '')


def r7_translate_before_use(chk):
    """in genSimpleSyntax of both generators the SMIv1 -> SMIv2 type-name table is applied before the name is
    tested, looked up or emitted"""
    model = chk.model
    chk.doc('C16.R7', 'genSimpleSyntax (symbol table and IR generators): the type name read from the clause is passed '
                      'through the SMIv1->SMIv2 table (typeClasses / SMI_TYPES) and only the translated value is '
                      'tested against baseTypes, looked up in the import map, stored or returned')
    n = 0
    for rel, cname, table in ((ir.SYMTAB, 'SymtableCodeGen', 'typeClasses'), (ir.INTER, 'IntermediateCodeGen', 'SMI_TYPES')):
        ci = model.cls(rel, cname)
        o, fn = ci.find_method('genSimpleSyntax')
        data = fn.args.args[1].arg
        state = {}

        def st_of(e):
            if isinstance(e, ast.Name):
                return state.get(e.id)
            if isinstance(e, ast.Subscript) and norm(e) == '%s[0]' % data:
                return 'raw'
            if isinstance(e, ast.Call) and common.is_self_attr(e.func, 'transOpers') and e.args:
                return st_of(e.args[0])
            if isinstance(e, ast.Call) and norm(e.func) == 'self.%s.get' % table and e.args:
                inner = st_of(e.args[0])
                dflt = st_of(e.args[1]) if len(e.args) > 1 else None
                return 'translated' if inner in ('raw', 'translated') and (dflt in ('raw', 'translated')) else inner
            return None
        uses = []
        for stmt in walk_ordered(fn):
            for e in ast.walk(stmt):
                if isinstance(e, ast.Compare) and len(e.ops) == 1 and isinstance(e.ops[0], (ast.In, ast.NotIn)) and \
                        norm(e.comparators[0]) == 'self.baseTypes':
                    uses.append(('baseTypes test', e.left, st_of(e.left)))
                if isinstance(e, ast.Call) and norm(e.func) == 'self._importMap.get' and e.args:
                    uses.append(('import-map lookup', e.args[0], st_of(e.args[0])))
            if isinstance(stmt, ast.Assign) and isinstance(stmt.targets[0], ast.Subscript) and \
                    norm(stmt.targets[0].slice) == "'type'":
                uses.append(('emitted type', stmt.value, st_of(stmt.value)))
            if isinstance(stmt, ast.Return) and isinstance(stmt.value, ast.Tuple) and \
                    isinstance(stmt.value.elts[0], ast.Tuple):
                uses.append(('returned type', stmt.value.elts[0].elts[0], st_of(stmt.value.elts[0].elts[0])))
            if isinstance(stmt, ast.Assign) and len(stmt.targets) == 1 and isinstance(stmt.targets[0], ast.Name):
                v = st_of(stmt.value)
                if v is not None:
                    state[stmt.targets[0].id] = v
                else:
                    state.pop(stmt.targets[0].id, None)
        for what, e, stt in uses:
            n += 1
            chk.ob('C16.R7', '%s.genSimpleSyntax/%s' % (cname, what), stt == 'translated', where(ci.mod, e),
                   '%s uses %s, which is %s: an SMIv1 name (Counter, Gauge, NetworkAddress) is treated as a type of '
                   'the compiled module' % (what, norm(e), 'the untranslated clause name' if stt == 'raw' else
                                            'not derived from the clause name'))
    chk.floor('C16.R7', 4, 'uses of the type name')


def walk_ordered(fn):
    """statements of fn in source order, compound statements before their bodies"""
    out = []

    def rec(body):
        for st in body:
            out.append(st)
            for f in ('body', 'orelse', 'finalbody'):
                rec(getattr(st, f, []) or [])
            for h in getattr(st, 'handlers', []) or []:
                rec(h.body)
    rec(fn.body)
    return out


def r8_no_mutation_while_iterating(chk):
    common.no_mutation_while_iterating(chk, 'C16.R8', [ir.SYMTAB, ir.INTER], floor=15)




def r9_every_type_record_is_translated(chk):
    """wherever the IR generator builds a record of class `type` (a reference to a named or base type), the name it
    stores went through the SMIv1 -> SMIv2 table - in genSimpleSyntax and in any other method that builds such a
    record itself"""
    model = chk.model
    ci = model.cls(ir.INTER, 'IntermediateCodeGen')
    chk.doc('C16.R9', 'IntermediateCodeGen: every record D with D["class"] = "type" gets D["type"] from a string '
                      'constant or from self.SMI_TYPES.get(<name>, <name>) (possibly normalised by transOpers afterwards): '
                      'no method emits a clause type name untranslated, so Counter / Gauge / NetworkAddress never reach '
                      'the output under their SMIv1 spelling')
    n = 0
    for fn in [f for f in ci.node.body if isinstance(f, ast.FunctionDef)]:
        recs = set()
        for stmt in walk_ordered(fn):
            if isinstance(stmt, ast.Assign) and isinstance(stmt.targets[0], ast.Subscript) and \
                    isinstance(stmt.targets[0].value, ast.Name) and norm(stmt.targets[0].slice) == "'class'" and \
                    isinstance(stmt.value, ast.Constant) and stmt.value.value == 'type':
                recs.add(stmt.targets[0].value.id)
        if not recs:
            continue
        state = {}

        def st_of(e):
            if isinstance(e, ast.Constant) and isinstance(e.value, str):
                return 'const'
            if isinstance(e, ast.Name):
                return state.get(e.id, 'raw' if e.id in [a.arg for a in fn.args.args[1:]] else None)
            if isinstance(e, ast.Subscript):
                b = st_of(e.value)
                return 'raw' if b in ('raw',) else b
            if isinstance(e, ast.Call) and common.is_self_attr(e.func, 'transOpers') and e.args:
                return st_of(e.args[0])
            if isinstance(e, ast.Call) and norm(e.func) == 'self.SMI_TYPES.get' and e.args:
                inner = st_of(e.args[0])
                dflt = st_of(e.args[1]) if len(e.args) > 1 else None
                return 'translated' if inner in ('raw', 'translated') and dflt in ('raw', 'translated') else inner
            return None
        for stmt in walk_ordered(fn):
            if isinstance(stmt, ast.Assign) and isinstance(stmt.targets[0], ast.Subscript) and \
                    isinstance(stmt.targets[0].value, ast.Name) and stmt.targets[0].value.id in recs and \
                    norm(stmt.targets[0].slice) == "'type'":
                n += 1
                stt = st_of(stmt.value)
                chk.ob('C16.R9', '%s/%s[type]' % (fn.name, stmt.targets[0].value.id), stt in ('const', 'translated'),
                       where(ci.mod, stmt), 'the type name stored (%s) is %s' % (
                           norm(stmt.value), 'taken from the clause without the SMIv1->SMIv2 translation'
                           if stt == 'raw' else 'of unknown origin' if stt is None else stt))
            if isinstance(stmt, ast.Assign) and len(stmt.targets) == 1 and isinstance(stmt.targets[0], ast.Name):
                v = st_of(stmt.value)
                if v is not None:
                    state[stmt.targets[0].id] = v
                else:
                    state.pop(stmt.targets[0].id, None)
    chk.floor('C16.R9', 2, 'genBits, genSimpleSyntax')



def r10_adapter_keeps_smiv1_values(chk):
    """what an SMIv1 module says (ACCESS write-only, ...) reaches the pysnmp output as the IR records it (shared with
    C04.R1)"""
    from rules.C04 import r1_shared_ir
    common.reuse(chk, r1_shared_ir, ('C04.R1',), 'C16.R10',
                 'the pysnmp adapter rewrites no member of an IR record (C04.R1): the SMIv1 spelling of a value is '
                 'translated, if at all, in the IR for both back-ends alike',
                 keep=lambda o: 'adapter' in o.key, floor=2)



def r11_symbol_table_registration(chk):
    """a TRAP-TYPE is registered like the NOTIFICATION-TYPE it transliterates to: under the normalised name (shared with
    C03.R16)"""
    from rules.C03 import r16_symbol_table_registration
    r16_symbol_table_registration(chk, rule='C16.R11')


def r12_import_map_holds_the_imports_clause(chk):
    """shared with C06.R15: an SMIv1 module and its SMIv2 transliteration attribute their references alike only if the
    import map holds nothing but their IMPORTS (converted by the documented table)"""
    from rules.C06 import r15_import_map_holds_the_imports_clause
    r15_import_map_holds_the_imports_clause(chk, rule='C16.R12')


def r13_trap_variables_like_notification_objects(chk):
    """shared with C06.R3: a TRAP-TYPE is the SMIv1 spelling of a NOTIFICATION-TYPE, so its VARIABLES must be turned
    into object references by the same expression as the OBJECTS of the SMIv2 clauses"""
    from rules.C06 import r3_object_lists
    common.reuse(chk, r3_object_lists, ('C06.R3',), 'C16.R13',
                 'genTrapType builds its list of object references with the same expression as genNotificationType / '
                 'genObjectGroup / genNotificationGroup (C06.R3 object-list-builders-agree): module from '
                 '_importMap.get(<name as the sibling handlers spell it>, own module), object = transOpers(name)',
                 keep=lambda o: 'agree' in o.key or 'TrapType' in o.key, floor=1)



def r14_relaxed_trap_enterprise_means_the_same(chk):
    """shared with C17.R3: `ENTERPRISE { x n }` accepted by the relaxed SMIv1 dialect must give the trap the OID the
    corrected text gives it"""
    from rules.C17 import r3_added_alternatives as f
    common.reuse(chk, f, ('C17.R3',), 'C16.R14',
                 'the relaxations that touch TRAP-TYPE (curly braces around ENTERPRISE) yield the value the corrected '
                 'text yields (C17.R3): the trap OID <enterprise>.0.<n> is computed from it',
                 keep=lambda o: 'Enterprise' in o.key or 'trap' in o.key.lower(), floor=1)


RULES = [r1_lexer_aliases, r2_type_tables, r3_access, r4_import_table, r5_apply_table, r6_trap, r7_translate_before_use, r8_no_mutation_while_iterating, r9_every_type_record_is_translated, r10_adapter_keeps_smiv1_values, r11_symbol_table_registration, r12_import_map_holds_the_imports_clause, r13_trap_variables_like_notification_objects, r14_relaxed_trap_enterprise_means_the_same]
