"""C09 - nothing is written when any module fails, unless errors are ignored."""
import ast

from rules import common
from vt.cfg import in_subtree, enclosing_trys
from vt.model import walk_no_nested, norm, dotted_name
from vt.runner import where, AnalysisError
from rules import compile_roles as cr
from rules.C07 import iter_source, _key_is

EXPLANATION = (
    "Typestate analysis of compile() (rule C09.T1): the statements of compile() are interpreted over an abstract "
    "state that tracks one arbitrary module through every local map, with every component call returning or raising "
    "any package error class, every option setting and every iteration order; invariants are evaluated at the "
    "component calls and at every return (see rules/compile_ts.py INV). "
    "CFG rules on MibCompiler.compile(): a guard test dominates the single putData call; evaluated as a boolean "
    "function of the atoms A = 'FAILED map non-empty' and B = options.get('ignoreErrors') (copy-propagated locals "
    "followed, nested tests combined by pruned reachability) the writer is unreachable exactly for (A, not B) and "
    "reachable for the other three valuations; that region ends in `return RESULT` and unconditionally stores the "
    "unprocessed status for every key of the built map; failures are only ever forgotten right after a successful "
    "re-fetch or borrow; inside the write loop nothing but the writeMibs switch can skip putData.")
ASSUMPTIONS = [
    "the truthiness of the FAILED map at the guard reflects the failures recorded before it (bookkeeping rules of C07)",
    "options is the **options dict of compile()",
]
LEVEL_TEXT = ("Structural decision on every path of compile(): the abort guard's truth table and dominance, the "
              "unprocessed marking, and the write loop's coverage. This property is essentially structural, so the "
              "static rules decide the mechanism completely; values of the FAILED map are covered by C07's rules.")
TECHNIQUE = 'CFG dominance + truth-table pruned reachability over compile(); typestate abstract interpretation of compile() (path-sensitive dataflow over a finite per-module domain, rules/compile_ts.py)'


def atoms_of(r):
    """expression text -> atom name, including locals copy-propagated from the atoms"""
    m = {r.failed: 'A', 'len(%s)' % r.failed: 'A', 'bool(%s)' % r.failed: 'A'}
    opt = r.fn.args.kwarg.arg if r.fn.args.kwarg else 'options'
    for txt in ("%s.get('ignoreErrors')", "%s.get('ignoreErrors', False)", "%s.get('ignoreErrors', None)",
                "%s.get('ignoreErrors', 0)"):
        m[txt % opt] = 'B'
    for st in r.fn.body:
        if isinstance(st, ast.Assign) and len(st.targets) == 1 and isinstance(st.targets[0], ast.Name):
            if norm(st.value) in m and m[norm(st.value)] == 'B':
                # single assignment local
                name = st.targets[0].id
                stores = [n for n in walk_no_nested(r.fn) if isinstance(n, ast.Name) and n.id == name and
                          isinstance(n.ctx, ast.Store)]
                if len(stores) == 1:
                    m[name] = 'B'
    return m


def eval_bool(e, atoms, val):
    """True/False/None(unknown) of a test expression under a valuation of the atoms."""
    t = norm(e)
    if t in atoms:
        return val[atoms[t]]
    if isinstance(e, ast.UnaryOp) and isinstance(e.op, ast.Not):
        v = eval_bool(e.operand, atoms, val)
        return None if v is None else not v
    if isinstance(e, ast.BoolOp):
        vs = [eval_bool(x, atoms, val) for x in e.values]
        if isinstance(e.op, ast.And):
            if any(v is False for v in vs):
                return False
            return True if all(v is True for v in vs) else None
        if any(v is True for v in vs):
            return True
        return False if all(v is False for v in vs) else None
    if isinstance(e, ast.Compare) and len(e.ops) == 1 and isinstance(e.comparators[0], ast.Constant):
        # len(FAILED) > 0 / != 0 / == 0
        left = norm(e.left)
        c = e.comparators[0].value
        if left in atoms and atoms[left] == 'A' and left.startswith('len(') and c == 0:
            if isinstance(e.ops[0], (ast.Gt, ast.NotEq)):
                return val['A']
            if isinstance(e.ops[0], ast.Eq):
                return not val['A']
    return None


def mentions_atom(e, atoms, which):
    for n in ast.walk(e):
        if isinstance(n, (ast.Name, ast.Call)) and norm(n) in atoms and atoms[norm(n)] == which:
            return True
    return False


def the_put(r):
    puts = r.calls.get('putData', [])
    if len(puts) != 1:
        raise AnalysisError('C09 needs exactly one putData site in compile() (found %d); see C07.R6' % len(puts))
    return puts[0]


def r1_guard(chk):
    r = cr.infer(chk.model)
    cfg = r.cfg
    chk.unit('pysmi/compiler.py:MibCompiler.compile')
    chk.doc('C09.R1', 'a test over (FAILED non-empty, ignoreErrors) dominates putData; putData is unreachable exactly '
                      'under (failed, not ignoreErrors) and that region returns RESULT')
    put = the_put(r)
    pn = cfg.node_of(cr.stmt_of(put, r.fn))
    atoms = atoms_of(r)
    guards = [n for n in cfg.nodes if n.kind == 'test' and cfg.dominates(n, pn) and
              mentions_atom(n.expr, atoms, 'A')]
    chk.ob('C09.R1', 'compile/guard-dominates-putData', bool(guards), where(r.mod, put),
           'no test on the FAILED map dominates the putData call')
    if not guards:
        return
    def pure(n):
        return all(eval_bool(n.expr, atoms, {'A': a_, 'B': b_}) is not None for a_ in (True, False) for b_ in (True, False))
    before_put = set(n for n in cfg.nodes if pn in cfg.reach([n]))
    allg = [n for n in cfg.nodes if n.kind == 'test' and cfg.dominates(guards[0], n) and
            (mentions_atom(n.expr, atoms, 'A') or mentions_atom(n.expr, atoms, 'B')) and pure(n) and
            (cfg.dominates(n, pn) or n not in before_put or cfg.dominates(guards[0], n) and n.lineno < pn.lineno)]
    # tests inside the write loop (after putData of an earlier iteration) do not belong to the guard
    allg = [n for n in allg if not cr.enclosing_loops(n.ast, r.fn) or n in guards]
    r._c09_guards = allg
    for a in (True, False):
        for b in (True, False):
            val = {'A': a, 'B': b}

            def ef(x, y, l, val=val):
                if x in allg and l in ('T', 'F'):
                    v = eval_bool(x.expr, atoms, val)
                    if v is not None:
                        return (l == 'T') == v
                return True
            reach = cfg.reach([guards[0]], edge_filter=ef)
            writes = pn in reach
            want = not (a and not b)
            chk.ob('C09.R1', 'compile/guard(failed=%d,ignoreErrors=%d)->%s' % (a, b, 'write' if want else 'no-write'),
                   writes == want, where(r.mod, guards[0].ast),
                   'under failed=%s ignoreErrors=%s the writer is %sreachable' % (a, b, '' if writes else 'un'))
            marks = [n for n in reach if n.kind == 'stmt' and cr.subscript_store(n.ast) and
                     cr.subscript_store(n.ast)[0] == r.result and
                     cr.status_of(cr.subscript_store(n.ast)[2], r.status_consts) == 'unprocessed']
            if not (a and not b):
                chk.ob('C09.R1', 'compile/guard(failed=%d,ignoreErrors=%d)->no-unprocessed-marking' % (a, b), not marks,
                       where(r.mod, marks[0].ast) if marks else where(r.mod, guards[0].ast),
                       'built modules are marked unprocessed although they are going to be written')
            if a and not b:
                # the region must end in `return RESULT` only
                region = reach
                rets = [n for n in region if n.kind == 'stmt' and isinstance(n.ast, ast.Return)]
                falls = cfg.exit in region and not rets
                bad = [n for n in rets if not (isinstance(n.ast.value, ast.Name) and n.ast.value.id == r.result)]
                chk.ob('C09.R1', 'compile/abort-region-returns-result', bool(rets) and not bad and not falls,
                       where(r.mod, guards[0].ast), 'abort region must leave through `return %s`' % r.result)
                r._c09_region = region
    # no removal from FAILED between the guard and the writer
    between = cfg.reach([guards[0]]) & set(n for n in cfg.nodes if pn in cfg.reach([n]))
    for n in between:
        if n.kind != 'stmt':
            continue
        rem = removal_from(n.ast, r.failed)
        if rem:
            chk.ob('C09.R1', 'compile/FAILED-removal-after-guard %s' % norm(n.ast)[:50], False, where(r.mod, n.ast),
                   'failures are forgotten after the guard was evaluated')


def removal_from(st, name):
    for d, k in cr.del_targets(st):
        if d == name:
            return True
    for n in ast.walk(st):
        if isinstance(n, ast.Call) and isinstance(n.func, ast.Attribute) and _key_is(n.func.value, name) and \
                n.func.attr in ('pop', 'popitem', 'clear'):
            return True
    if isinstance(st, ast.Assign) and any(_key_is(t, name) for t in st.targets):
        return True
    return False


def r2_unprocessed_marking(chk):
    r = cr.infer(chk.model)
    cfg = r.cfg
    chk.doc('C09.R2', 'the abort region contains a loop over the built map that unconditionally stores the '
                      'unprocessed status for each key')
    region = getattr(r, '_c09_region', None)
    if region is None:
        chk.ob('C09.R2', 'compile/abort-region', False, r.mod.rel, 'no abort region (see C09.R1)')
        return
    put = the_put(r)
    wloop = cr.enclosing_loop(cr.stmt_of(put, r.fn), r.fn)
    built = iter_source(wloop) if wloop is not None else None
    ok, detail = False, 'no loop over the built map (%s) in the abort region' % built
    for n in region:
        if n.kind == 'iter' and isinstance(n.ast, ast.For) and iter_source(n.ast) == built and \
                isinstance(n.ast.target, ast.Name):
            k = n.ast.target.id
            direct = [s for s in n.ast.body if cr.subscript_store(s) and cr.subscript_store(s)[0] == r.result and
                      _key_is(cr.subscript_store(s)[1], k) and
                      cr.status_of(cr.subscript_store(s)[2], r.status_consts) == 'unprocessed']
            cond_exit = [s for s in n.ast.body if isinstance(s, (ast.If, ast.Try, ast.While, ast.For)) or
                         isinstance(s, (ast.Continue, ast.Break))]
            first_bad = None
            for s in n.ast.body:
                if s in direct:
                    break
                if isinstance(s, (ast.If, ast.Try, ast.While, ast.For, ast.Continue, ast.Break, ast.Return, ast.Raise)):
                    first_bad = s
                    break
            if direct and first_bad is None:
                ok, detail = True, ''
            else:
                detail = 'unprocessed status is stored conditionally (under `%s`) or not at all' % (
                    norm(first_bad)[:60] if first_bad is not None else 'nothing')
            # the return must come after the loop: loop node dominates the return
    chk.ob('C09.R2', 'compile/abort-region-marks-built-unprocessed', ok, where(r.mod, r.fn), detail)
    # and the marking loop precedes the return on every path
    if ok:
        rets = [n for n in region if n.kind == 'stmt' and isinstance(n.ast, ast.Return)]
        loops = [n for n in region if n.kind == 'iter' and iter_source(n.ast) == built]
        good = all(any(cfg.dominates(l, rt) for l in loops) for rt in rets)
        chk.ob('C09.R2', 'compile/marking-before-return', good, where(r.mod, r.fn),
               'a return in the abort region is not dominated by the marking loop')


def r3_failed_only_forgotten_on_success(chk):
    r = cr.infer(chk.model)
    chk.doc('C09.R3', 'FAILED is never rebound/cleared; a removal FAILED[k] happens only in a try body after a '
                      'successful getData/parse/genCode call of the same iteration (re-fetch success or borrow)')
    n = 0
    for st in walk_no_nested(r.fn):
        if isinstance(st, ast.Assign) and any(_key_is(t, r.failed) for t in st.targets):
            n += 1
            init = isinstance(st.value, ast.Dict) and not st.value.keys and st in r.fn.body
            chk.ob('C09.R3', 'compile/%s rebinding#%d' % (r.failed, n), init, where(r.mod, st),
                   'FAILED map rebound after initialisation')
        for c in ast.walk(st) if isinstance(st, ast.Expr) else []:
            if isinstance(c, ast.Call) and isinstance(c.func, ast.Attribute) and _key_is(c.func.value, r.failed) \
                    and c.func.attr in ('clear', 'popitem', 'update'):
                n += 1
                chk.ob('C09.R3', 'compile/%s.%s()' % (r.failed, c.func.attr), False, where(r.mod, st),
                       'wholesale change of the FAILED map')
        removed = [k for d, k in cr.del_targets(st) if d == r.failed]
        pc = cr.pop_call(st)
        if pc and pc[0] == r.failed:
            removed.append(pc[1])
        for k in removed:
            n += 1
            ok = False
            for t in enclosing_trys(st, r.fn):
                # a protocol call earlier in the same try body
                for s in t.body:
                    if s is st or in_subtree(st, s):
                        break
                    for c in ast.walk(s):
                        if isinstance(c, ast.Call) and isinstance(c.func, ast.Attribute) and \
                                c.func.attr in ('getData', 'parse', 'genCode'):
                            ok = True
            chk.ob('C09.R3', 'compile/remove %s[%s]#%d' % (r.failed, norm(k), n), ok, where(r.mod, st),
                   'a recorded failure is forgotten without a successful re-fetch/borrow on the same path')
    chk.floor('C09.R3', 3, 'FAILED initialisation + 2 removals')


def r4_write_loop_covers_all(chk):
    r = cr.infer(chk.model)
    cfg = r.cfg
    chk.doc('C09.R4', 'the write loop iterates a copy of the built map and nothing but the writeMibs switch lets an '
                      'iteration skip putData')
    put = the_put(r)
    st = cr.stmt_of(put, r.fn)
    loop = cr.enclosing_loop(st, r.fn)
    if loop is None:
        chk.ob('C09.R4', 'compile/write-loop', False, where(r.mod, put), 'putData not in a loop')
        return
    built = iter_source(loop)
    chk.ob('C09.R4', 'compile/write-loop-iterates-built-map', built in r.work and not isinstance(loop.iter, ast.Name),
           where(r.mod, loop), 'loop iterable is %s (must be a snapshot of a work map that is changed in the loop)'
           % norm(loop.iter))
    pn = cfg.node_of(st)
    head = cfg.by_ast[id(loop)]
    opt = r.fn.args.kwarg.arg if r.fn.args.kwarg else 'options'
    switch = [n for n in cfg.nodes if n.kind == 'test' and in_subtree(n.ast, loop) and cfg.dominates(n, pn) and
              "'writeMibs'" in norm(n.expr)]
    other = [n for n in cfg.nodes if n.kind == 'test' and in_subtree(n.ast, loop) and cfg.dominates(n, pn) and
             n not in switch]
    chk.ob('C09.R4', 'compile/write-loop-filters', not other, where(r.mod, loop),
           'putData is additionally guarded by `%s`' % (norm(other[0].expr)[:60] if other else ''))
    # paths from the loop head back to the head that avoid putData must pass the switch's F edge
    start = [m for m, l in head.succ if l == 'T']

    def ef(x, y, l):
        if x in switch and l == 'F':
            return False
        return not (l == 'exc')
    reach = cfg.reach(start, avoid=[pn, head], edge_filter=ef)
    back = [x for x in reach if any(m is head for m, l in x.succ)]
    chk.ob('C09.R4', 'compile/write-loop-no-skip', not back, where(r.mod, loop),
           'an iteration can finish without putData (via line %s)' % (back[0].lineno if back else ''))
    # the switch reads options.get('writeMibs', <truthy default>) in positive position
    reads = [x for n in switch for x in cr.option_reads(n.expr, opt, 'writeMibs')]
    ok = len(reads) == 1 and reads[0][0] is True and isinstance(reads[0][1], ast.Constant) and bool(reads[0][1].value)
    chk.ob('C09.R4', 'compile/writeMibs-switch-polarity', ok, where(r.mod, switch[0].ast) if switch else where(r.mod, loop),
           'modules are written when writeMibs is on (the default): the guard must be the un-negated read '
           '%s.get(\'writeMibs\', True); found %s' % (opt, [norm(n.expr) for n in switch]))
    # writeMibs default must be truthy
    for n in switch:
        for c in ast.walk(n.expr):
            if isinstance(c, ast.Call) and isinstance(c.func, ast.Attribute) and c.func.attr == 'get' and c.args and \
                    isinstance(c.args[0], ast.Constant) and c.args[0].value == 'writeMibs':
                ok = len(c.args) == 2 and isinstance(c.args[1], ast.Constant) and bool(c.args[1].value)
                chk.ob('C09.R4', 'compile/writeMibs-default-on', ok, where(r.mod, c), 'writeMibs must default to on')


def r5_failures_feed_the_guard(chk):
    """every way a module can fail must put it into the FAILED map the guard tests: the source-error handlers of the
    discovery loop (same rule as C07.R1) and the FAILED/RESULT pairing (C07.R5)"""
    from vt.runner import Check
    from rules import C07
    chk.doc('C09.R5', 'each handler of the source try other than not-found records the failure in FAILED; FAILED and '
                      'RESULT move together')
    tmp = Check(chk.prop, chk.tier, chk.model, chk.repo)
    C07.r1_containment(tmp)
    C07.r5_failed_result_pairing(tmp, rule='C09.R5')
    for o in tmp.obligations:
        if 'source-handler' in o.key or o.rule == 'C09.R5':
            chk.ob('C09.R5', o.key, o.ok, o.where, o.detail)



def t1_typestate(chk):
    """typestate analysis of compile() (rules/compile_ts.py): end-to-end bookkeeping invariants for an arbitrary
    module over every outcome of every component call"""
    from rules import compile_ts
    compile_ts.ts_rule(chk, 'C09.T1', ['abort', 'failed-pairing', 'stale-failure', 'failure-forgotten', 'missing-reported'])



def r6_closure_is_complete(chk):
    """a missing module can only stop the writing if it is looked up at all: the work list must receive every
    module an IMPORTS clause names (shared with C08.R1)"""
    from rules.C08 import r1_worklist_growth
    r1_worklist_growth(chk, rule='C09.R6')


RULES = [r1_guard, r2_unprocessed_marking, r3_failed_only_forgotten_on_success, r4_write_loop_covers_all,
         r5_failures_feed_the_guard, t1_typestate, r6_closure_is_complete]
