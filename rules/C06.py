"""C06 - references between objects keep their targets, order and module attribution."""
import ast

from vt.grammar import shipped_dialects, PARSER
from vt.model import walk_no_nested, norm, dotted_name
from vt.tmpl import TemplateModel
from vt.runner import where, AnalysisError
from rules import common, ir
from rules.C07 import _key_is
from rules.C17 import shapes, dialect_list

EXPLANATION = (
    "Rules on how names travel between the symbol table pass, the IR builder and the template: (R1) normalisation "
    "discipline - every lookup in the import map, the cross-module symbol table, the row/column lists uses a key in "
    "the same spelling (hyphens mapped or not) as the keys those tables are filled with; the spelling of each local "
    "is tracked through transOpers calls, loop variables over normalised lists and clause positions; (R2) one index "
    "record per INDEX element in order with implied/object taken from the right pair position; (R3) the object-list "
    "builders of notification types/groups, object groups and traps are the same comprehension and keep order; (R4) "
    "compliance groups keep order and are attributed to the MODULE name or the module being compiled; (R5) the "
    "grammar pairs (IMPLIED flag, name); (R6) the template emits (implied, module, object) / (module, object) in "
    "that order; (R7) node type = the handler-declared kind of the SYNTAX, overridden to column exactly for members "
    "of the symbol table's complete, normalised SEQUENCE column list.")
ASSUMPTIONS = ["correctness of the classification for arbitrary SEQUENCE layouts is not decided beyond the mechanism"]
TECHNIQUE = 'intra-procedural spelling-state (RAW/NORM) dataflow over table lookups; sibling AST equality; template AST'

INTER, SYMTAB = ir.INTER, ir.SYMTAB
NORM_LIST_ROLES = ('NotificationObjectsPart', 'ObjectGroupObjectsPart', 'NotificationsPart', 'VarPart')
TABLES_NORM = ('_importMap', 'symbolTable', '_out', '_rows', '_symtable_rows', '_symtable_cols', '_seenSyms',
               '_postponedSyms')


def is_transopers(e):
    return isinstance(e, ast.Call) and isinstance(e.func, ast.Attribute) and e.func.attr == 'transOpers'


def state_of(fn, name_node, norm_params=()):
    """'NORM' / 'RAW' / '?' of a Name at its use, from the reaching assignments in the enclosing function (lexical
    order, structured code): NORM if the last assignment before the use is x = self.transOpers(..) or x is bound
    by a comprehension/loop over a NORM list; RAW if it comes straight from the handler data."""
    var = name_node.id
    use_line = name_node.lineno
    # comprehension variable?
    a = getattr(name_node, '_parent', None)
    while a is not None and a is not fn:
        if isinstance(a, (ast.ListComp, ast.GeneratorExp, ast.SetComp, ast.DictComp)):
            for g in a.generators:
                if var in [n.id for n in ast.walk(g.target) if isinstance(n, ast.Name)]:
                    if isinstance(g.iter, ast.Name):
                        return 'NORM' if g.iter.id in norm_params else state_of_name(fn, g.iter.id, g.iter.lineno,
                                                                                     norm_params, elem=True)
                    return '?'
        a = getattr(a, '_parent', None)
    return state_of_name(fn, var, use_line, norm_params)


def state_of_name(fn, var, use_line, norm_params, elem=False, depth=0):
    """RAW only when the value provably comes from the handler's `data` argument (grammar material) without
    passing transOpers; parameters of helper functions and values of unknown origin are '?'"""
    if var in norm_params:
        return 'NORM'
    dparam = fn.args.args[1].arg if len(fn.args.args) > 1 and fn.args.args[1].arg == 'data' else None
    if var == dparam:
        return 'RAW'
    if depth > 6:
        return '?'
    best = None
    for s in walk_no_nested(fn):
        if isinstance(s, (ast.Assign, ast.For)) and s.lineno <= use_line:
            tg = s.targets if isinstance(s, ast.Assign) else [s.target]
            for t in tg:
                names = [n.id for n in ast.walk(t) if isinstance(n, ast.Name) and isinstance(n.ctx, ast.Store)]
                if var in names and (best is None or s.lineno >= best.lineno):
                    if isinstance(s, ast.For) and not (s.lineno < use_line <= s.end_lineno):
                        continue
                    best = s
    if best is None:
        return '?'
    # `best` may sit in a conditional block that does not enclose the use: then the earlier definition also
    # reaches the use - take the worst case
    if depth < 6 and not isinstance(best, ast.For):
        encl = getattr(best, '_parent', None)
        while encl is not None and encl is not fn and not isinstance(encl, (ast.If, ast.For, ast.While, ast.Try)):
            encl = getattr(encl, '_parent', None)
        if encl is not None and encl is not fn and not (encl.lineno <= use_line <= encl.end_lineno):
            mine = _state_of_def(fn, var, best, norm_params, dparam, depth)
            if isinstance(encl, ast.If) and encl.orelse:
                def last_def(block):
                    ds = [x for st in block for x in ast.walk(st) if isinstance(x, ast.Assign) and any(
                        var in [n.id for n in ast.walk(t) if isinstance(n, ast.Name)] for t in x.targets)]
                    return ds[-1] if ds else None
                d1, d2 = last_def(encl.body), last_def(encl.orelse)
                if d1 is not None and d2 is not None:
                    s1 = _state_of_def(fn, var, d1, norm_params, dparam, depth)
                    s2 = _state_of_def(fn, var, d2, norm_params, dparam, depth)
                    if 'RAW' in (s1, s2):
                        return 'RAW'
                    return s1 if s1 == s2 else '?'
            other = state_of_name(fn, var, encl.lineno - 1, norm_params, depth=depth + 1)
            if 'RAW' in (other, mine):
                return 'RAW'
            return mine if other == mine else '?'
    return _state_of_def(fn, var, best, norm_params, dparam, depth)


def _state_of_def(fn, var, best, norm_params, dparam, depth):
    src = best.iter if isinstance(best, ast.For) else best.value
    if is_transopers(src):
        return 'NORM'
    # strip subscripts: x = y[0] / a, b = y / for x in y
    base = src
    while isinstance(base, ast.Subscript):
        base = base.value
    if isinstance(base, ast.Name):
        if base.id == var:
            return '?'
        if isinstance(best, ast.For) and base.id in norm_params:
            return 'NORM'
        return state_of_name(fn, base.id, best.lineno if isinstance(best, ast.For) else best.lineno - 1,
                             norm_params, depth=depth + 1) if base.id != dparam else 'RAW'
    if isinstance(src, ast.Call) and isinstance(src.func, ast.Attribute) and src.func.attr == 'get' and \
            isinstance(src.func.value, ast.Attribute) and src.func.value.attr in ('SMI_TYPES', 'typeClasses') and \
            src.args and isinstance(src.args[0], ast.Name):
        return state_of_name(fn, src.args[0].id, best.lineno - 1, norm_params, depth=depth + 1)
    if isinstance(src, ast.BoolOp):
        sts = [state_of_name(fn, n.id, best.lineno - 1, norm_params, depth=depth + 1)
               for n in ast.walk(src) if isinstance(n, ast.Name) and n.id != 'self']
        if sts and all(x == 'RAW' for x in sts):
            return 'RAW'
    return '?'


def lookup_sites(fn):
    """(table name, key Name node, description) for lookups in NORM-keyed tables"""
    out = []
    for n in walk_no_nested(fn):
        # x in self.T / x in self.symbolTable[..] / x in self.symbolTable[..]['_symtable_cols']
        if isinstance(n, ast.Compare) and len(n.ops) == 1 and isinstance(n.ops[0], (ast.In, ast.NotIn)) and \
                isinstance(n.left, ast.Name):
            t = table_of(n.comparators[0])
            if t:
                out.append((t, n.left, norm(n)))
        if isinstance(n, ast.Call) and isinstance(n.func, ast.Attribute) and n.func.attr == 'get' and n.args and \
                isinstance(n.args[0], ast.Name):
            t = table_of(n.func.value)
            if t:
                out.append((t, n.args[0], norm(n)[:60]))
        if isinstance(n, ast.Subscript) and isinstance(n.ctx, ast.Load) and isinstance(n.slice, ast.Name):
            t = table_of(n.value)
            if t:
                out.append((t, n.slice, norm(n)[:60]))
    return out


def table_of(e):
    if common.is_self_attr(e) and e.attr in TABLES_NORM and e.attr != 'symbolTable':
        return e.attr
    if isinstance(e, ast.Subscript):
        if common.is_self_attr(e.value, 'symbolTable'):
            return 'symbolTable[m]'
        if isinstance(e.value, ast.Subscript) and common.is_self_attr(e.value.value, 'symbolTable') and \
                isinstance(e.slice, ast.Constant) and e.slice.value in ('_symtable_cols', '_symtable_rows'):
            return e.slice.value
    return None


def r1_normalisation(chk, rule='C06.R1', only=None):
    model = chk.model
    chk.unit(INTER, SYMTAB)
    chk.doc(rule, 'a lookup key in _importMap / symbolTable[m] / _out / _rows / _symtable_rows / _symtable_cols is in '
                  'normalised spelling (result of transOpers, or an element of a list a handler normalised), because '
                  'these tables are filled with normalised names; the tables are indeed filled that way')
    clauses = ir.clause_model(model)
    from rules.C03 import clause_roles
    roles = clause_roles(model)
    n = 0
    for rel, cname in ((INTER, 'IntermediateCodeGen'), (SYMTAB, 'SymtableCodeGen')):
        ci = model.cls(rel, cname)
        for mname, fn in sorted(ci.methods.items()):
            if only is not None and mname not in only:
                continue
            norm_params = set()
            # clause positions holding lists normalised by genObjects
            for tag, c in clauses.items():
                if c.fn is fn and c.unpack:
                    for nm, rl in zip(c.unpack, roles.get(tag, [])):
                        if rl & set(NORM_LIST_ROLES):
                            norm_params.add(nm)
            for table, key, text in lookup_sites(fn):
                st = state_of(fn, key, norm_params)
                n += 1
                chk.ob(rule, '%s.%s/%s<-%s' % (cname, mname, table, key.id if st != 'RAW' else 'raw-label'),
                       st != 'RAW', where(ci.mod, key),
                       'table %s is keyed by normalised names but is asked for `%s` as written in the MIB (%s): a '
                       'name with a hyphen is not found / attributed to the wrong module' % (table, key.id, text))
    chk.floor(rule, 15 if only is None else 2, 'lookup sites')
    # insertion side
    sci = model.cls(SYMTAB, 'SymtableCodeGen')
    o, sg = sci.find_method('genCode')
    cols = [s for s in sg.body if isinstance(s, ast.Assign) and norm(s.targets[0]) == "self._out['_symtable_cols']"]
    ok = len(cols) == 1 and isinstance(cols[0].value, ast.ListComp) and is_transopers(cols[0].value.elt) and \
        norm(cols[0].value.generators[0].iter) == 'self._cols' and not cols[0].value.generators[0].ifs
    chk.ob(rule, 'SymtableCodeGen.genCode/_symtable_cols-normalised', ok, where(sci.mod, cols[0]) if cols else SYMTAB,
           'the published column list must hold the normalised name of every SEQUENCE member: %s' % (
               norm(cols[0].value) if cols else None))
    rows = [s for s in sg.body if isinstance(s, ast.Assign) and norm(s.targets[0]) == "self._out['_symtable_rows']"]
    chk.ob(rule, 'SymtableCodeGen.genCode/_symtable_rows', len(rows) == 1 and norm(rows[0].value) in (
        'list(self._rows)', 'sorted(self._rows)'), SYMTAB, '')
    o, gct = sci.find_method('genConceptualTable')
    ok = any(isinstance(c, ast.Call) and norm(c.func) == 'self._rows.add' and c.args and is_transopers(c.args[0])
             for c in walk_no_nested(gct))
    chk.ob(rule, 'SymtableCodeGen.genConceptualTable/_rows-normalised', ok, where(sci.mod, gct), '')
    for rel, cname in ((INTER, 'IntermediateCodeGen'), (SYMTAB, 'SymtableCodeGen')):
        ci = model.cls(rel, cname)
        o, gi = ci.find_method('genImports')
        ups = [c for c in walk_no_nested(gi) if isinstance(c, ast.Call) and norm(c.func) == 'self._importMap.update']
        ok = len(ups) == 1 and ups[0].args and isinstance(ups[0].args[0], ast.ListComp) and \
            isinstance(ups[0].args[0].elt, ast.Tuple) and is_transopers(ups[0].args[0].elt.elts[0])
        if ok:
            lp_ = None
            a_ = getattr(ups[0], '_parent', None)
            while a_ is not None and not isinstance(a_, ast.For):
                a_ = getattr(a_, '_parent', None)
            ok = a_ is not None and isinstance(a_.target, ast.Name) and \
                norm(ups[0].args[0].elt.elts[1]) == a_.target.id and 'sorted(' in norm(a_.iter)
        chk.ob(rule, '%s.genImports/_importMap-normalised' % cname, ok, where(ci.mod, gi),
               'the import map must map transOpers(symbol) -> the module it is imported from')
    # sequence members collected from every SEQUENCE
    o, gs = sci.find_method('genSequence')
    ok = any(isinstance(c, ast.Call) and norm(c.func) == 'self._cols.update' for c in walk_no_nested(gs))
    chk.ob(rule, 'SymtableCodeGen.genSequence/collects-columns', ok, where(sci.mod, gs), '')


def r2_table_index(chk):
    model = chk.model
    ci = model.cls(INTER, 'IntermediateCodeGen')
    mod = ci.mod
    o, fn = ci.find_method('genTableIndex')
    chk.subject(fn, 'IntermediateCodeGen.genTableIndex')
    chk.doc('C06.R2', 'genTableIndex: one record per element of data[0] in order; implied <- element[0], object <- the '
                      'name from element[1], module <- import map lookup of that name (default: own module)')
    loops = [n for n in fn.body if isinstance(n, ast.For)]
    ok = len(loops) == 1 and isinstance(loops[0].iter, ast.Name)
    chk.ob('C06.R2', 'genTableIndex/loop', ok, where(mod, fn), 'one loop over the index list expected')
    if not ok:
        return
    lp = loops[0]
    src = [s for s in fn.body if isinstance(s, ast.Assign) and _key_is(s.targets[0], lp.iter.id)]
    chk.ob('C06.R2', 'genTableIndex/iterates-data', bool(src) and norm(src[0].value) == '%s[0]' % fn.args.args[1].arg,
           where(mod, lp), 'must iterate data[0] in order')
    iv = lp.target.id
    asg = dict((s.targets[0].id, norm(s.value)) for s in lp.body if isinstance(s, ast.Assign) and
               isinstance(s.targets[0], ast.Name))
    stores = dict((norm(s.targets[0].slice), s.value) for s in lp.body if isinstance(s, ast.Assign) and
                  isinstance(s.targets[0], ast.Subscript) and isinstance(s.targets[0].value, ast.Name))
    imp = stores.get("'implied'")
    obj = stores.get("'object'")
    modl = stores.get("'module'")
    ok = isinstance(imp, ast.Name) and asg.get(imp.id) == '%s[0]' % iv
    chk.ob('C06.R2', 'genTableIndex/implied', ok, where(mod, lp), 'implied must come from element[0]')
    okn = isinstance(obj, ast.Name) and asg.get(obj.id) in ('%s[1]' % iv,) or (
        isinstance(obj, ast.Name) and any(isinstance(s, ast.Assign) and _key_is(s.targets[0], obj.id) and
                                          norm(s.value) == '%s[1]' % iv for s in lp.body))
    chk.ob('C06.R2', 'genTableIndex/object', okn, where(mod, lp), 'object must be the name from element[1]')
    okm = modl is not None and isinstance(obj, ast.Name) and norm(modl) == 'self._importMap.get(%s, self.moduleName[0])' % obj.id
    chk.ob('C06.R2', 'genTableIndex/module', okm, where(mod, lp),
           'module must be self._importMap.get(<index name>, self.moduleName[0]): %s' % (norm(modl) if modl is not None else None))
    app = [s for s in lp.body if isinstance(s, ast.Expr) and isinstance(s.value, ast.Call) and
           isinstance(s.value.func, ast.Attribute) and s.value.func.attr == 'append' and s is lp.body[-1]]
    chk.ob('C06.R2', 'genTableIndex/append-in-order', len(app) == 1 and not [
        x for x in walk_no_nested(lp) if isinstance(x, (ast.Continue, ast.Break))], where(mod, lp), '')
    rets = [x for x in walk_no_nested(fn) if isinstance(x, ast.Return) and isinstance(x.value, ast.Tuple)]
    ok = bool(rets) and bool(app) and norm(rets[-1].value.elts[0]) == norm(app[0].value.func.value)
    chk.ob('C06.R2', 'genTableIndex/returns-list-first', ok, where(mod, fn), 'the index list must be returned first')
    # genObjectType stores it
    o2, got = ci.find_method('genObjectType')
    un_ = [a.id for s in got.body if isinstance(s, ast.Assign) and isinstance(s.targets[0], ast.Tuple) and
           _key_is(s.value, got.args.args[1].arg) for a in s.targets[0].elts]
    iv_ = un_[8] if len(un_) == 11 else '?'
    b = common.pfind([s for s in walk_no_nested(got) if isinstance(s, ast.Assign)],
                     "$a, $b, $c = %s or ('', '', [])" % iv_)
    ok = b is not None and any(common.pmatch(s, "$o['indices'] = %s" % b['a']) is not None
                               for s in walk_no_nested(got) if isinstance(s, ast.Assign))
    chk.ob('C06.R2', 'genObjectType/indices-plumbing', ok, where(mod, got), 'indices must be the first result of the '
                                                                            'INDEX handler')
    # augmention
    aug = [s for s in ir.record_stores(got) if s.key == ('augmention', 'object')]
    ok = len(aug) == 1 and isinstance(aug[0].value, ast.Name) and any(
        isinstance(s, ast.Assign) and _key_is(s.targets[0], aug[0].value.id) and is_transopers(s.value)
        for s in walk_no_nested(got))
    chk.ob('C06.R2', 'genObjectType/augmention-object', ok, where(mod, got), 'augmention.object must be the normalised '
                                                                             'AUGMENTS name')


def r3_object_lists(chk):
    model = chk.model
    ci = model.cls(INTER, 'IntermediateCodeGen')
    mod = ci.mod
    chk.doc('C06.R3', 'notification types/groups, object groups and traps build `objects` with the same comprehension '
                      '{module: importMap.get(x, own module), object: transOpers(x)} over the clause list in order; '
                      'genObjects returns the normalised names of data[0] in order')
    dumps = {}
    for m in ('genNotificationGroup', 'genNotificationType', 'genObjectGroup', 'genTrapType'):
        o, fn = ci.find_method(m)
        chk.subject(fn, 'IntermediateCodeGen.%s' % m)
        st = [s for s in ir.record_stores(fn) if s.key == ('objects',)]
        ok = len(st) == 1 and isinstance(st[0].value, ast.ListComp) and len(st[0].value.generators) == 1 and \
            not st[0].value.generators[0].ifs and isinstance(st[0].value.generators[0].iter, ast.Name)
        chk.ob('C06.R3', '%s/objects-comprehension' % m, ok, where(mod, fn), 'objects must be a plain comprehension '
                                                                             'over the clause list')
        if ok:
            v = st[0].value
            iv = v.generators[0].target.id
            want = "{'module': self._importMap.get(%s, self.moduleName[0]), 'object': self.transOpers(%s)}" % (iv, iv)
            chk.ob('C06.R3', '%s/objects-element' % m, norm(v.elt) == want, where(mod, st[0].node),
                   'element is %s' % norm(v.elt))
            dumps[m] = norm(v.elt).replace(iv, 'X')
    chk.ob('C06.R3', 'object-list-builders-agree', len(set(dumps.values())) == 1 and len(dumps) == 4, INTER,
           '%s' % dumps)
    o, go = ci.find_method('genObjects')
    chk.subject(go, 'IntermediateCodeGen.genObjects')
    d = go.args.args[1].arg
    rets = [x for x in walk_no_nested(go) if isinstance(x, ast.Return) and isinstance(x.value, ast.ListComp)]
    ok = len(rets) == 1 and norm(rets[0].value.generators[0].iter) == '%s[0]' % d and \
        not rets[0].value.generators[0].ifs and is_transopers(rets[0].value.elt)
    chk.ob('C06.R3', 'genObjects/order-and-normalisation', ok, where(mod, go),
           'genObjects must return [transOpers(x) for x in data[0]]')


def r4_compliances(chk):
    model = chk.model
    ci = model.cls(INTER, 'IntermediateCodeGen')
    mod = ci.mod
    o, fn = ci.find_method('genCompliances')
    chk.subject(fn, 'IntermediateCodeGen.genCompliances')
    chk.doc('C06.R4', 'genCompliances walks data[0] in order; each group is attributed to that MODULE clause\'s name or, '
                      'when the clause names no module, to the module being compiled (never to an earlier clause)')
    loops = [n for n in fn.body if isinstance(n, ast.For)]
    ok = len(loops) == 1 and norm(loops[0].iter) == '%s[0]' % fn.args.args[1].arg
    chk.ob('C06.R4', 'genCompliances/loop', ok, where(mod, fn), '')
    if not ok:
        return
    lp = loops[0]
    iv = lp.target.id
    nm = [s for s in lp.body if isinstance(s, ast.Assign) and isinstance(s.targets[0], ast.Name) and
          '%s[0]' % iv in norm(s.value)]
    ok = len(nm) == 1 and norm(nm[0].value) in ('%s[0] or self.moduleName[0]' % iv,
                                               '%s[0] if %s[0] else self.moduleName[0]' % (iv, iv))
    chk.ob('C06.R4', 'genCompliances/module-attribution', ok, where(mod, nm[0]) if nm else where(mod, lp),
           'module name must be `%s[0] or self.moduleName[0]`, found %s' % (iv, [norm(s) for s in nm]))
    if nm:
        mv = nm[0].targets[0].id
        ext = [s for s in lp.body if isinstance(s, ast.AugAssign) or (
            isinstance(s, ast.Expr) and isinstance(s.value, ast.Call) and isinstance(s.value.func, ast.Attribute) and
            s.value.func.attr == 'extend')]
        ok = len(ext) == 1
        if ok:
            v = ext[0].value if isinstance(ext[0], ast.AugAssign) else ext[0].value.args[0]
            ok = isinstance(v, ast.ListComp) and norm(v.generators[0].iter) == '%s[1]' % iv and \
                not v.generators[0].ifs and isinstance(v.elt, ast.Dict)
            if ok:
                d = dict((k.value, norm(val)) for k, val in zip(v.elt.keys, v.elt.values))
                cv = v.generators[0].target.id
                ok = d == {'object': 'self.transOpers(%s)' % cv, 'module': mv}
        chk.ob('C06.R4', 'genCompliances/groups-in-order', ok, where(mod, lp),
               'each group of the clause must be appended in order as {object: transOpers(g), module: <name>}')
    # grammar side: ComplianceModule = (module name, mandatory groups + compliances)
    gs = shapes(model, shipped_dialects(model)['smiV2'])
    for p in gs.d.prods:
        if p.lhs == 'ComplianceModule':
            t = repr(gs.terms[p])
            ok = t.startswith('(p2, ') and t.index('p3') < t.index('p4')
            chk.ob('C06.R4', 'p_ComplianceModule', ok, '%s:%s' % (PARSER, p.fn.lineno), 'term %s' % t[:90])


def r5_grammar_pairs(chk):
    model = chk.model
    chk.doc('C06.R5', 'IndexType yields (0, name) / (1, name) for IMPLIED; Index/Entry/Object/Notification/VarType '
                      'yield the first sub-identifier of their object name')
    for dname, opts in dialect_list(chk, ('smiV2', 'smiV1Relaxed')):
        gs = shapes(model, opts)
        for p in gs.d.prods:
            t = repr(gs.terms[p])
            if p.lhs == 'IndexType':
                want = '(0, p1)' if len(p.rhs) == 1 else '(1, p2)'
                chk.ob('C06.R5', '%s/IndexType[%s]' % (dname, ' '.join(p.rhs)), t == want,
                       '%s:%s' % (PARSER, p.fn.lineno), 'term %s' % t)
            if p.lhs in ('Entry', 'Object', 'Notification', 'VarType', 'MandatoryGroup') or (
                    p.lhs == 'Index' and p.rhs == ('ObjectName',)):
                chk.ob('C06.R5', '%s/%s' % (dname, p.lhs), t == 'p1[1][0]', '%s:%s' % (PARSER, p.fn.lineno),
                       'term %s' % t)
            if p.lhs == 'MibIndex' and len(p.rhs) == 4:
                chk.ob('C06.R5', '%s/MibIndex' % dname, t == '(p1, p3)', '%s:%s' % (PARSER, p.fn.lineno), 'term %s' % t)
            if p.lhs == 'IndexPart' and len(p.rhs) == 4:
                chk.ob('C06.R5', '%s/IndexPart' % dname, t == 'p3', '%s:%s' % (PARSER, p.fn.lineno), 'term %s' % t)
    chk.floor('C06.R5', 16, 'reference productions')


def r6_template(chk):
    chk.doc('C06.R6', 'mib-definitions.j2: setIndexNames gets (implied, "module", "object") per index in order; '
                      'registerAugmentions/getIndexNames use augmention.object; setObjects gets ("module", "object") '
                      'pairs from objects (from modulecompliance for compliance statements)')
    tm = TemplateModel(chk.repo, 'pysmi/codegen/templates/pysnmp/mib-definitions.j2')
    src = tm.src
    import re
    m = re.search(r"setIndexNames\(\s*\{% for index in definition\['indices'\] %\}\s*\(\{\{ index\['implied'\] \}\}, "
                  r"\"\{\{ index\['module'\] \}\}\", \"\{\{ index\['object'\] \}\}\"\),\s*\{% endfor %\}", src)
    chk.ob('C06.R6', 'setIndexNames', m is not None, tm.rel, 'index triple must be (implied, "module", "object")')
    chk.ob('C06.R6', 'augmention', src.count("definition['augmention']['object'] }}.registerAugmentions(") == 1 and
           src.count("setIndexNames(*{{ definition['augmention']['object'] }}.getIndexNames())") == 1, tm.rel,
           'augmenting rows must register with and copy the index of augmention.object')
    # the pair handed to registerAugmentions names the *augmenting* row: (module being generated, this symbol)
    m = re.search(r"registerAugmentions\(\s*\(\"\{\{\s*(.*?)\s*\}\}\",\s*\"\{\{\s*(.*?)\s*\}\}\"\)\s*\)", src)
    modx = m.group(1) if m else None
    ok = m is not None and modx in ("mib['meta']['module']", "definition['augmention']['module']") and \
        m.group(2).startswith('symbol')
    chk.ob('C06.R6', 'augmention-registered-pair', ok, tm.rel,
           'registerAugmentions must get ("<module being generated>", "<this row>"), found %s' % (
               (m.groups() if m else None),))
    ci_ = chk.model.cls(INTER, 'IntermediateCodeGen')
    o_, fn_ = ci_.find_method('genObjectType')
    sts = [x for x in ir.record_stores(fn_) if x.key == ('augmention', 'module')]
    chk.ob('C06.R6', 'augmention-module-is-own-module', len(sts) == 1 and norm(sts[0].value) == 'self.moduleName[0]',
           where(ci_.mod, sts[0].node) if sts and hasattr(sts[0], 'node') else ci_.mod.rel,
           'augmention.module (with augmention.name the identity of the augmenting row) must be the module being '
           'compiled, found %s' % [norm(x.value) for x in sts])
    pairs = re.findall(r"\(\"\{\{ obj\['(\w+)'\] \}\}\", \"\{\{\s+obj\['(\w+)'\] \}\}\"\)", src)
    chk.ob('C06.R6', 'setObjects-pairs', len(pairs) >= 16 and set(pairs) == set([('module', 'object')]), tm.rel,
           'pairs found: %s' % sorted(set(pairs)))
    loops = re.findall(r"\{% for obj in definition\['(\w+)'\] %\}", src)
    chk.ob('C06.R6', 'setObjects-sources', sorted(loops) == ['modulecompliance', 'objects', 'objects', 'objects'],
           tm.rel, 'object loops over %s' % loops)


def r7_nodetype(chk, rule='C06.R7'):
    model = chk.model
    ci = model.cls(INTER, 'IntermediateCodeGen')
    mod = ci.mod
    o, fn = ci.find_method('genObjectType')
    chk.subject(fn, 'IntermediateCodeGen.genObjectType')
    chk.doc(rule, 'nodetype = the kind the SYNTAX handler declares (table / row / scalar), overridden to column '
                  'exactly when the normalised object name is in the symbol table\'s complete SEQUENCE column list '
                  '(symbolTable[own module]["_symtable_cols"]), which does not depend on declaration order')
    st_ = [s for s in ir.record_stores(fn) if s.key == ('nodetype',) and isinstance(s.value, ast.Name)]
    ntv = st_[0].value.id if st_ else 'nodetype'
    un_ = [a.id for s in fn.body if isinstance(s, ast.Assign) and isinstance(s.targets[0], ast.Tuple) and
           _key_is(s.value, fn.args.args[1].arg) for a in s.targets[0].elts]
    namev, synv = (un_[0], un_[1]) if len(un_) == 11 else ('name', 'syntax')
    nts = [s for s in walk_no_nested(fn) if isinstance(s, ast.Assign) and _key_is(s.targets[0], ntv)]
    col = [s for s in nts if "'column'" in norm(s.value)]
    ok = len(col) == 1 and norm(col[0].value) == \
        "%s in self.symbolTable[self.moduleName[0]]['_symtable_cols'] and 'column' or %s" % (namev, ntv)
    chk.ob(rule, 'genObjectType/column-test', ok, where(mod, col[0]) if col else where(mod, fn),
           'column decision is `%s`: it must test the symbol table\'s complete column list' % (
               norm(col[0].value) if col else None))
    base = [s for s in nts if s not in col]
    ok = len(base) == 1 and norm(base[0].value) == "%s[0] == 'Bits' and 'scalar' or %s[0]" % (synv, synv) and \
        base[0].lineno < (col[0].lineno if col else 0)
    chk.ob(rule, 'genObjectType/base-kind', ok, where(mod, fn), 'base node type must be the first component of the '
                                                                'syntax handler result')
    kinds = {}
    for m, want in (('genConceptualTable', "'table'"), ('genSimpleSyntax', "'scalar'"), ('genBits', "'scalar'")):
        o2, f2 = ci.find_method(m)
        rets = [x for x in walk_no_nested(f2) if isinstance(x, ast.Return) and isinstance(x.value, ast.Tuple)]
        chk.ob(rule, '%s/kind' % m, bool(rets) and all(norm(x.value.elts[0]) == want for x in rets), where(mod, f2),
               '%s must declare kind %s' % (m, want))
    o3, gr = ci.find_method('genRow')
    cnd = common.as_conditional(gr)
    dpar = gr.args.args[1].arg
    ok = False
    detail = 'genRow must end in a two-way choice (row / simple syntax)'
    if cnd:
        t, a, b = cnd
        rowvars = [s.targets[0].id for s in walk_no_nested(gr) if isinstance(s, ast.Assign) and
                   isinstance(s.targets[0], ast.Name) and isinstance(s.value, ast.Call) and
                   common.is_self_attr(s.value.func, 'transOpers')]
        okt = isinstance(t, ast.Compare) and len(t.ops) == 1 and isinstance(t.ops[0], ast.In) and \
            isinstance(t.left, ast.Name) and t.left.id in rowvars and \
            norm(t.comparators[0]) == "self.symbolTable[self.moduleName[0]]['_symtable_rows']"
        oka = norm(a) == "('row', '')"
        okb = norm(b) == 'self.genSimpleSyntax(%s)' % dpar
        ok = okt and oka and okb
        detail = 'genRow decides `%s` ? %s : %s - expected <normalised type name> in symbolTable[own module]' \
                 '["_symtable_rows"] ? ("row", "") : self.genSimpleSyntax(%s)' % (norm(t)[:70], norm(a), norm(b)[:40], dpar)
    chk.ob(rule, 'genRow/kind', ok, where(mod, gr), detail)
    # the symbol-table sibling decides the same way over the rows it collected itself
    sci = model.cls(ir.SYMTAB, 'SymtableCodeGen')
    o4, sgr = sci.find_method('genRow')
    cnd = common.as_conditional(sgr)
    ok = False
    detail = 'SymtableCodeGen.genRow must end in a two-way choice (row / simple syntax)'
    if cnd:
        t, a, b = cnd
        rowvars = [s_.targets[0].id for s_ in walk_no_nested(sgr) if isinstance(s_, ast.Assign) and
                   isinstance(s_.targets[0], ast.Name) and isinstance(s_.value, ast.Call) and
                   common.is_self_attr(s_.value.func, 'transOpers')]
        okt = isinstance(t, ast.Compare) and len(t.ops) == 1 and isinstance(t.ops[0], ast.In) and \
            isinstance(t.left, ast.Name) and t.left.id in rowvars and norm(t.comparators[0]) == 'self._rows'
        oka = norm(a) == "(('MibTableRow', ''), '')"
        okb = norm(b).startswith('self.genSimpleSyntax(%s' % sgr.args.args[1].arg)
        ok = okt and oka and okb
        detail = 'SymtableCodeGen.genRow decides `%s` ? %s : %s' % (norm(t)[:60], norm(a), norm(b)[:40])
    chk.ob(rule, 'SymtableCodeGen.genRow/kind', ok, where(sci.mod, sgr), detail)


REFERENCE_PRODUCTIONS = set([
    'imports', 'importPart', 'import', 'importIdentifiers', 'importIdentifier',
    'IndexPart', 'MibIndex', 'IndexTypes', 'IndexType', 'Index', 'Entry',
    'ObjectGroupObjectsPart', 'NotificationObjectsPart', 'Objects', 'Object',
    'NotificationsPart', 'Notifications', 'Notification', 'VarPart', 'VarTypes', 'VarType',
    'MandatoryPart', 'MandatoryGroups', 'MandatoryGroup', 'CompliancePart', 'Compliances', 'Compliance',
    'ComplianceGroup', 'ComplianceObject', 'ComplianceModulePart', 'ComplianceModules', 'ComplianceModule'])


def r8_references_reach_the_tree(chk):
    """the grammar actions that build the lists of object references neither drop, duplicate nor reorder a member
    (the C02 term rules restricted to the productions a reference passes through)"""
    from rules.C02 import r1_nothing_dropped, r2_list_idiom
    r1_nothing_dropped(chk, only_lhs=REFERENCE_PRODUCTIONS, rule='C06.R8')
    r2_list_idiom(chk, rule='C06.R8', only_lhs=REFERENCE_PRODUCTIONS)


def r9_collectors(chk):
    ci = chk.model.cls(INTER, 'IntermediateCodeGen')
    ir.elementwise_collectors(chk, 'C06.R9', ci, ['genTableIndex', 'genCompliances'], 2)




def r_absent_values_C06_R10(chk):
    """optional clause parts are used where they are present, not where they are absent"""
    common.no_value_taken_from_an_absent_operand(chk, 'C06.R10', ['pysmi/codegen/intermediate.py', 'pysmi/codegen/symtable.py'], floor=2)



def r11_generators_start_clean(chk):
    """shared with C12.R2"""
    from rules.C12 import r2_generator_reset
    common.reuse(chk, r2_generator_reset, ('C12.R2',), 'C06.R11', 'both generators re-initialise, at the start of genCode, every attribute their handlers write and assign the per-call settings on every path (C12.R2): a stale import map attributes index / object references of this module to a module an earlier one imported from', floor=12)



def r12_names_are_case_sensitive(chk):
    """an INDEX / OBJECTS member called ipAddress is an object reference, not the type keyword IpAddress"""
    common.names_are_case_sensitive(chk, 'C06.R12', ['pysmi/codegen/intermediate.py', 'pysmi/codegen/symtable.py',
                                                     'pysmi/codegen/base.py', 'pysmi/codegen/pysnmp.py',
                                                     'pysmi/codegen/jsondoc.py'], floor=4)



def r_no_partial_key_memo(chk):
    """an answer cached under part of the clause is wrong for the clause that differs in the rest"""
    common.no_partial_key_memo(chk, 'C06.R13', 'pysmi/codegen/intermediate.py', 'IntermediateCodeGen')
    common.no_partial_key_memo(chk, 'C06.R13', 'pysmi/codegen/symtable.py', 'SymtableCodeGen')


def r15_import_map_holds_the_imports_clause(chk, rule='C06.R15'):
    """which module a referenced object is attributed to is read from the import map: it must hold what the IMPORTS
    clause (after the documented SMIv1 conversion and the constant imports) says and nothing else"""
    from rules.C12 import writes_in
    model = chk.model
    chk.doc(rule, 'both generators: self._importMap is written in two places only - emptied where genCode / __init__ reset the '
                  'generator, and filled by the one update([(transOpers(s), module) for s in symbols]) inside '
                  'genImports\' loop over the (converted) IMPORTS clause.  An entry from any other source (a table of '
                  'well-known objects, a default) outranks a local definition of the same name, because every reference '
                  'is attributed through _importMap.get(name, <own module>)')
    for rel, cname in ((INTER, 'IntermediateCodeGen'), (SYMTAB, 'SymtableCodeGen')):
        ci = model.cls(rel, cname)
        n_up = 0
        for mname, fn in sorted(ci.methods.items()):
            for attr, kind, node in writes_in(fn):
                if attr != '_importMap':
                    continue
                if kind == 'assign' and isinstance(node.value, (ast.Dict, ast.Call)) and norm(node.value) in ('{}', 'dict()', 'OrderedDict()'):
                    ok = mname in ('genCode', '__init__', 'reset')
                    why = 'the map is emptied outside genCode / __init__'
                elif kind == 'call:clear':
                    ok = mname in ('genCode', '__init__', 'reset')
                    why = 'the map is emptied outside genCode / __init__'
                elif kind == 'call:update' and mname == 'genImports':
                    n_up += 1
                    ok = n_up == 1
                    why = 'a second update of the import map'
                else:
                    ok = False
                    why = 'the import map gets entries that do not come from the IMPORTS clause'
                chk.ob(rule, '%s.%s/%s' % (cname, mname, norm(node)[:50]), ok, where(ci.mod, node), why)
        chk.ob(rule, '%s.genImports/fills-the-map' % cname, n_up == 1, where(ci.mod, ci.node), '%d update(s)' % n_up)


def r14_reference_lists_reach_the_tree(chk):
    """shared with C02.R11, restricted to the clauses that carry references between objects"""
    from rules.C02 import r11_parts_reach_the_tree
    r11_parts_reach_the_tree(chk, rule='C06.R14', only_lhs=REFERENCE_PRODUCTIONS, floor=3)


RULES = [r1_normalisation, r2_table_index, r3_object_lists, r4_compliances, r5_grammar_pairs, r6_template, r7_nodetype,
         r8_references_reach_the_tree, r9_collectors, r_absent_values_C06_R10, r11_generators_start_clean, r12_names_are_case_sensitive, r_no_partial_key_memo, r14_reference_lists_reach_the_tree, r15_import_map_holds_the_imports_clause]
