"""C13 - writing a module is atomic under I/O faults; dry-run touches nothing."""
import ast

from vt.cfg import CFG, in_subtree, enclosing_trys
from vt.model import walk_no_nested, norm, dotted_name
from vt.runner import where, AnalysisError
from rules import compile_roles as cr
from rules import common
from rules.C07 import _key_is

EXPLANATION = (
    "Typestate analysis of compile() (rule C13.T1): the statements of compile() are interpreted over an abstract "
    "state that tracks one arbitrary module through every local map, with every component call returning or raising "
    "any package error class, every option setting and every iteration order; invariants are evaluated at the "
    "component calls and at every return (see rules/compile_ts.py INV). "
    "CFG/typestate rules with may-raise edges on FileWriter.putData, PyFileWriter.putData and CallbackWriter.putData: "
    "the dryRun return dominates every filesystem mutator (and the user callback); the destination path flows only "
    "into the second argument of os.rename (plus, after the rename, the byte-compile stage) - never into open/"
    "unlink/write before the rename; the temp file is created in the destination directory; the complete encoded "
    "buffer is written (loop on os.write's return value over the same bytes object, buffered file object, or "
    "explicit length check) and closed before the rename; every exceptional exit between mkstemp and rename reaches "
    "a handler that covers OSError, unlinks the temp file when set and raises PySmiWriterError; makedirs failure is "
    "converted; the byte-compile stage ignores syntax errors and otherwise removes the module and raises "
    "PySmiWriterError; the two writers agree; compile() passes dryRun through and gates putData on writeMibs.")
ASSUMPTIONS = [
    "os.rename within one directory is atomic (kernel property); durability (fsync) is not part of the statement",
    "mkstemp returns a unique name, which is what makes concurrent writers safe (structural argument only)",
]
TECHNIQUE = 'CFG dominance + typestate of (fd, temp path, destination path) over the writer functions; typestate abstract interpretation of compile() (path-sensitive dataflow over a finite per-module domain, rules/compile_ts.py)'

MUTATORS = ('os.makedirs', 'os.mkdir', 'tempfile.mkstemp', 'os.write', 'os.close', 'os.rename', 'os.replace',
            'os.unlink', 'os.remove', 'open', 'os.open', 'os.fdopen', 'py_compile.compile', 'os.rmdir', 'os.chmod',
            'os.truncate', 'os.link', 'os.symlink')
WRITERS = (('pysmi/writer/localfile.py', 'FileWriter'), ('pysmi/writer/pyfile.py', 'PyFileWriter'))


def mutator_calls(fn):
    out = []
    for n in walk_no_nested(fn):
        if isinstance(n, ast.Call):
            d = dotted_name(n.func)
            if d in MUTATORS or (d or '').startswith('shutil.'):
                out.append((d, n))
    return out


def param(fn, name):
    for a in fn.args.args:
        if a.arg == name:
            return a
    return None


def r1_dryrun(chk):
    chk.doc('C13.R1', 'in every writer `if dryRun: return` dominates all filesystem mutators / the user callback and '
                      'its true branch reaches the exit without a mutator; compile() passes dryRun=options.get('
                      '"dryRun") and gates putData on writeMibs')
    model = chk.model
    for rel, cname in WRITERS + (('pysmi/writer/callback.py', 'CallbackWriter'),):
        owner, fn = model.method(rel, cname, 'putData')
        mod = owner.mod
        chk.unit('%s:%s.putData' % (rel, cname))
        if param(fn, 'dryRun') is None:
            raise AnalysisError('%s.putData has no dryRun parameter' % cname)
        cfg = CFG(fn)
        guards = [n for n in cfg.nodes if n.kind == 'test' and _key_is(n.expr, 'dryRun')]
        muts = mutator_calls(fn)
        if cname == 'CallbackWriter':
            muts = [('self._cbFun', n) for n in walk_no_nested(fn) if isinstance(n, ast.Call) and
                    common.is_self_attr(n.func, '_cbFun')]
        chk.ob('C13.R1', '%s.putData/dryRun-guard' % cname, len(guards) >= 1, where(mod, fn), 'no `if dryRun` test')
        if not guards:
            continue
        g = guards[0]
        # true branch: reach exit with no mutator node
        mut_nodes = set(cfg.node_of(common.stmt_of(c)) for _, c in muts)
        tb = cfg.reach([m for m, l in g.succ if l == 'T'], skip_labels=('exc',))
        false_b = set(m for m, l in g.succ if l == 'F')
        ok = cfg.exit in tb and not (tb & mut_nodes) and not (tb & false_b)
        chk.ob('C13.R1', '%s.putData/dryRun-returns' % cname, ok, where(mod, g.ast),
               'the dry-run branch must return without touching the filesystem')
        for d, c in muts:
            n = cfg.node_of(common.stmt_of(c))
            dom = cfg.dominates(g, n)
            # must be on the F side: not reachable from the T edge
            chk.ob('C13.R1', '%s.putData/%s-after-dryRun' % (cname, d), dom and n not in tb, where(mod, c),
                   '%s can run in dry-run mode' % d)
        dflt = dict(zip([a.arg for a in fn.args.args][-len(fn.args.defaults):], fn.args.defaults)).get('dryRun')
        chk.ob('C13.R1', '%s.putData/dryRun-default' % cname, isinstance(dflt, ast.Constant) and dflt.value is False,
               where(mod, fn), 'dryRun must default to False')
    # compile() side
    r = cr.infer(model)
    opt = r.fn.args.kwarg.arg if r.fn.args.kwarg else 'options'
    for c in r.calls.get('putData', []):
        kw = [k for k in c.keywords if k.arg == 'dryRun']
        chk.ob('C13.R1', 'compile/putData-dryRun-kw', len(kw) == 1 and norm(kw[0].value) == "%s.get('dryRun')" % opt,
               where(r.mod, c), 'putData must receive dryRun=options.get("dryRun")')
        pn = r.cfg.node_of(cr.stmt_of(c, r.fn))
        sw = [n for n in r.cfg.nodes if n.kind == 'test' and "'writeMibs'" in norm(n.expr) and r.cfg.dominates(n, pn)]
        ok = bool(sw) and pn in r.cfg.reach([m for m, l in sw[0].succ if l == 'T'], avoid=[sw[0]]) and \
            pn not in r.cfg.reach([m for m, l in sw[0].succ if l == 'F'], avoid=[sw[0]],
                                  edge_filter=lambda a, b, l: not isinstance(getattr(b, 'ast', None), ast.For) or True) \
            or False
        # simpler: putData statement lies in the body of the `if writeMibs` statement
        ok = bool(sw) and any(in_subtree(cr.stmt_of(c, r.fn), s) for s in sw[0].ast.body)
        reads = cr.option_reads(sw[0].expr, opt, 'writeMibs') if sw else []
        ok = ok and len(reads) == 1 and reads[0][0] is True
        chk.ob('C13.R1', 'compile/putData-under-writeMibs', ok, where(r.mod, c),
               'putData must be control-dependent on the writeMibs option')
    # buildIndex passes dryRun too
    owner, bi = model.method(cr.COMPILER, 'MibCompiler', 'buildIndex')
    for c in [n for n in walk_no_nested(bi) if isinstance(n, ast.Call) and isinstance(n.func, ast.Attribute) and
              n.func.attr == 'putData']:
        kw = [k for k in c.keywords if k.arg == 'dryRun']
        chk.ob('C13.R1', 'buildIndex/putData-dryRun-kw', len(kw) == 1 and norm(kw[0].value).endswith(".get('dryRun')"),
               where(owner.mod, c), 'index write must honour dryRun')
    chk.floor('C13.R1', 20, 'three writers + compile')


def analyse_writer(chk, rel, cname):
    model = chk.model
    owner, fn = model.method(rel, cname, 'putData')
    mod = owner.mod
    if not hasattr(fn, '_cfg'):
        fn._cfg = CFG(fn)
    cfg = fn._cfg
    muts = mutator_calls(fn)
    by = {}
    for d, c in muts:
        by.setdefault(d, []).append(c)
    return owner, fn, mod, cfg, by


def r2_typestate(chk):
    chk.doc('C13.R2', 'exactly one mkstemp(dir=self._path) and one rename(tfile, dest); dest = os.path.join('
                      'self._path, ...) (+suffix); before the rename the destination name is used by no mutator; '
                      'after it only by the byte-compile stage; rename is dominated by mkstemp, the write and close')
    for rel, cname in WRITERS:
        owner, fn, mod, cfg, by = analyse_writer(chk, rel, cname)
        tag = '%s.putData' % cname
        mk = by.get('tempfile.mkstemp', [])
        rn = by.get('os.rename', []) + by.get('os.replace', [])
        chk.ob('C13.R2', tag + '/one-mkstemp', len(mk) == 1, where(mod, fn), '%d mkstemp calls' % len(mk))
        chk.ob('C13.R2', tag + '/one-rename', len(rn) == 1, where(mod, fn), '%d rename calls' % len(rn))
        if len(mk) != 1 or len(rn) != 1:
            continue
        mk, rn = mk[0], rn[0]
        dirkw = [k for k in mk.keywords if k.arg == 'dir']
        chk.ob('C13.R2', tag + '/mkstemp-dir', len(dirkw) == 1 and common.is_self_attr(dirkw[0].value, '_path'),
               where(mod, mk), 'temp file must be created in the destination directory (dir=self._path): %s' % norm(mk))
        st = common.stmt_of(mk)
        fdv = tfv = None
        if isinstance(st, ast.Assign) and isinstance(st.targets[0], ast.Tuple) and len(st.targets[0].elts) == 2:
            fdv, tfv = [e.id if isinstance(e, ast.Name) else None for e in st.targets[0].elts]
        chk.ob('C13.R2', tag + '/mkstemp-unpack', bool(fdv and tfv), where(mod, mk), 'fd, tfile = mkstemp(...)')
        ok = len(rn.args) == 2 and _key_is(rn.args[0], tfv) and isinstance(rn.args[1], ast.Name)
        chk.ob('C13.R2', tag + '/rename-args', ok, where(mod, rn), 'rename(<temp file>, <destination>): %s' % norm(rn))
        if not ok:
            continue
        dest = rn.args[1].id
        # destination = join(self._path, decode(mibname)) [+ suffix]
        dassign = [s for s in walk_no_nested(fn) if isinstance(s, (ast.Assign, ast.AugAssign)) and
                   any(_key_is(t, dest) for t in (s.targets if isinstance(s, ast.Assign) else [s.target]))]
        joins = [s for s in dassign if isinstance(s, ast.Assign) and any(
            isinstance(c, ast.Call) and dotted_name(c.func) == 'os.path.join' and c.args and
            common.is_self_attr(c.args[0], '_path') and len(c.args) == 2 and
            norm(c.args[1]) in ('decode(mibname)', 'mibname') for c in ast.walk(s.value))]
        chk.ob('C13.R2', tag + '/destination-path', len(joins) == 1, where(mod, dassign[0]) if dassign else where(mod, fn),
               'destination must be os.path.join(self._path, <module name>) + suffix')
        for s in dassign:
            if s in joins:
                tail = norm(s.value)
                ok = tail.endswith('+ self.suffix') or tail.endswith(')')
                chk.ob('C13.R2', tag + '/destination-suffix', ok, where(mod, s), 'unexpected destination: %s' % tail)
            else:
                ok = isinstance(s, ast.AugAssign) and isinstance(s.op, ast.Add) and norm(s.value) in (
                    'SOURCE_SUFFIXES[0]', 'self.suffix')
                chk.ob('C13.R2', tag + '/destination-suffix', ok, where(mod, s), 'destination changed: %s' % norm(s))
        rnode = cfg.node_of(common.stmt_of(rn))
        # uses of dest in mutators
        for d, calls in sorted(by.items()):
            for c in calls:
                if c is rn:
                    continue
                uses = [a for a in list(c.args) + [k.value for k in c.keywords] if _key_is(a, dest)]
                if not uses:
                    continue
                cn = cfg.node_of(common.stmt_of(c))
                after = cfg.dominates(rnode, cn)
                stage = d in ('py_compile.compile', 'os.unlink', 'os.remove')
                chk.ob('C13.R2', tag + '/destination-used-by-%s' % d, after and stage, where(mod, c),
                       'the destination name is touched by %s %s the rename; only rename may install it' % (
                           d, 'after' if after else 'before'))
        # other calls (non-mutator, e.g. os.access) on dest before rename are harmless reads; but unlink/open are mutators
        # ordering: mkstemp, write, close dominate rename
        mnode = cfg.node_of(st)
        chk.ob('C13.R2', tag + '/mkstemp-dominates-rename', cfg.dominates(mnode, rnode), where(mod, rn), '')
        closes = [c for c in by.get('os.close', []) if c.args and _key_is(c.args[0], fdv)]
        fobj_close = [n for n in walk_no_nested(fn) if isinstance(n, ast.With)]
        okc = any(cfg.dominates(cfg.node_of(common.stmt_of(c)), rnode) for c in closes) or bool(fobj_close)
        chk.ob('C13.R2', tag + '/close-dominates-rename', okc, where(mod, rn),
               'the temp file must be closed on every path to the rename')
        fn._c13 = dict(fdv=fdv, tfv=tfv, dest=dest, rnode=rnode, mnode=mnode, rn=rn, mk=mk)
    chk.floor('C13.R2', 16, 'two writers')


def r3_complete_write(chk):
    chk.doc('C13.R3', 'the encoded buffer B is written completely before the rename: `while B: B = B[os.write(fd, B):]`'
                      ', `while n < len(B): n += os.write(fd, B[n:])` over the same bytes object B, a buffered file '
                      'object write, or an explicit length check; a bare os.write() whose result is discarded, or a '
                      'loop bounded by the length of the un-encoded text, is a short-write hole')
    for rel, cname in WRITERS:
        owner, fn, mod, cfg, by = analyse_writer(chk, rel, cname)
        tag = '%s.putData' % cname
        writes = by.get('os.write', [])
        fdopen = by.get('os.fdopen', [])
        if not writes and not fdopen:
            chk.ob('C13.R3', tag + '/write', False, where(mod, fn), 'no write of the data found')
            continue
        for w in writes:
            st = common.stmt_of(w)
            ok, detail = False, ''
            buf = w.args[1] if len(w.args) == 2 else None
            if isinstance(st, ast.Expr) and st.value is w:
                detail = 'result of os.write() is discarded: a short write leaves a truncated file that is renamed ' \
                         'into place'
            else:
                loop = cr.enclosing_loop(st, fn)
                # idiom 1: while B: B = B[os.write(fd, B):]
                if isinstance(loop, ast.While) and isinstance(loop.test, ast.Name) and isinstance(st, ast.Assign) \
                        and _key_is(st.targets[0], loop.test.id) and _key_is(buf, loop.test.id) and \
                        isinstance(st.value, ast.Subscript) and _key_is(st.value.value, loop.test.id) and \
                        isinstance(st.value.slice, ast.Slice) and st.value.slice.lower is w and \
                        st.value.slice.upper is None:
                    ok = is_encoded(fn, loop.test.id, loop)
                    detail = '' if ok else 'buffer %s is not the encoded data' % loop.test.id
                # idiom 2: while n < len(B): n += os.write(fd, B[n:])
                elif isinstance(loop, ast.While) and isinstance(loop.test, ast.Compare) and \
                        len(loop.test.ops) == 1 and isinstance(loop.test.ops[0], ast.Lt) and \
                        isinstance(loop.test.left, ast.Name) and isinstance(st, ast.AugAssign) and \
                        isinstance(st.op, ast.Add) and _key_is(st.target, loop.test.left.id) and st.value is w:
                    n = loop.test.left.id
                    bound = loop.test.comparators[0]
                    bname = None
                    if isinstance(bound, ast.Call) and dotted_name(bound.func) == 'len' and \
                            isinstance(bound.args[0], ast.Name):
                        bname = bound.args[0].id
                    elif isinstance(bound, ast.Name):
                        v = last_assign(fn, bound.id, loop)
                        if isinstance(v, ast.Call) and dotted_name(v.func) == 'len' and isinstance(v.args[0], ast.Name):
                            bname = v.args[0].id
                    sliced = isinstance(buf, ast.Subscript) and isinstance(buf.value, ast.Name) and \
                        isinstance(buf.slice, ast.Slice) and _key_is(buf.slice.lower, n) and buf.slice.upper is None
                    if not sliced:
                        detail = 'os.write must be given the unwritten tail B[%s:]' % n
                    elif bname != buf.value.id:
                        detail = 'loop is bounded by len(%s) but writes slices of %s: with multi-byte characters the ' \
                                 'loop stops before the encoded buffer is written' % (bname, buf.value.id)
                    else:
                        ok = is_encoded(fn, bname, loop)
                        detail = '' if ok else 'buffer %s is not the encoded data' % bname
                # idiom 3: explicit length check
                elif isinstance(getattr(w, '_parent', None), ast.Compare):
                    cmp_ = w._parent
                    other = [x for x in [cmp_.left] + cmp_.comparators if x is not w]
                    ok = len(other) == 1 and isinstance(other[0], ast.Call) and dotted_name(other[0].func) == 'len' \
                        and norm(other[0].args[0]) == norm(buf)
                    detail = '' if ok else 'length check does not compare with len(%s)' % norm(buf)
                else:
                    detail = 'unrecognised write idiom: %s' % norm(st)[:70]
            chk.ob('C13.R3', tag + '/complete-write', ok, where(mod, w), detail)
            c13 = getattr(fn, '_c13', None)
            if c13 and ok:
                wn = cfg.node_of(st)
                lp = cr.enclosing_loop(st, fn)
                if lp is not None:
                    wn = cfg.by_ast[id(lp)]  # an empty buffer needs no write: the loop head must dominate
                chk.ob('C13.R3', tag + '/write-dominates-rename', cfg.dominates(wn, c13['rnode']), where(mod, w),
                       'the write must happen on every path to the rename')
                chk.ob('C13.R3', tag + '/write-fd', _key_is(w.args[0], c13['fdv']), where(mod, w),
                       'data must be written to the temp file descriptor')
        for f in fdopen:
            # buffered file object: f.write(B) inside with/explicit close
            ok = any(isinstance(n, ast.Call) and isinstance(n.func, ast.Attribute) and n.func.attr == 'write'
                     for n in walk_no_nested(fn))
            chk.ob('C13.R3', tag + '/buffered-write', ok, where(mod, f), 'fdopen without write')
    chk.floor('C13.R3', 2, 'two writers')


def last_assign(fn, name, before):
    best = None
    for st in walk_no_nested(fn):
        if isinstance(st, ast.Assign) and any(_key_is(t, name) for t in st.targets) and st.lineno < before.lineno:
            if best is None or st.lineno > best.lineno:
                best = st
    return best.value if best is not None else None


def is_encoded(fn, name, before):
    """name is bound to encode(<data param>) (the encoded bytes)"""
    v = last_assign(fn, name, before)
    return isinstance(v, ast.Call) and dotted_name(v.func) == 'encode' and len(v.args) == 1 and \
        isinstance(v.args[0], ast.Name) and v.args[0].id == 'data'


def r4_cleanup(chk):
    chk.doc('C13.R4', 'mkstemp/write/close/rename sit in one try whose handler covers OSError (and the encode error), '
                      'unlinks the temp file when it was created and raises PySmiWriterError on every path; the temp '
                      'name variable is None before mkstemp; makedirs failure raises PySmiWriterError')
    model = chk.model
    for rel, cname in WRITERS:
        owner, fn, mod, cfg, by = analyse_writer(chk, rel, cname)
        tag = '%s.putData' % cname
        c13 = getattr(fn, '_c13', None)
        if not c13:
            chk.ob('C13.R4', tag + '/typestate', False, where(mod, fn), 'typestate not established (C13.R2)')
            continue
        steps = [c13['mk'], c13['rn']] + by.get('os.write', []) + by.get('os.close', [])
        trys = set()
        for c in steps:
            t = enclosing_trys(common.stmt_of(c), fn)
            trys.add(id(t[-1]) if t else None)
            if not t:
                chk.ob('C13.R4', tag + '/%s-in-try' % dotted_name(c.func), False, where(mod, c),
                       '%s is outside the cleanup try' % dotted_name(c.func))
        chk.ob('C13.R4', tag + '/one-cleanup-try', len(trys) == 1 and None not in trys, where(mod, fn),
               'mkstemp, write, close and rename must share one try statement')
        if len(trys) != 1 or None in trys:
            continue
        t = enclosing_trys(common.stmt_of(c13['rn']), fn)[-1]
        h = cr.handler_covering(model, mod, t, ('OSError', 'EnvironmentError', 'IOError', 'Exception', 'BaseException'))
        chk.ob('C13.R4', tag + '/handler-covers-OSError', h is not None, where(mod, t),
               'handlers: %s' % [cr.handler_type_names(model, mod, x) for x in t.handlers])
        if h is None:
            continue
        tf = c13['tfv']
        hn = cfg.by_ast[id(h)]
        unl = [c for c in walk_no_nested(h) if isinstance(c, ast.Call) and dotted_name(c.func) in (
            'os.unlink', 'os.remove') and c.args and _key_is(c.args[0], tf)]
        chk.ob('C13.R4', tag + '/handler-unlinks-temp', bool(unl), where(mod, h), 'temp file is not removed on failure')
        for u in unl:
            # guarded by truthiness of tf
            guarded = False
            a = getattr(u, '_parent', None)
            while a is not None and a is not h:
                if isinstance(a, ast.If) and tf in [n.id for n in ast.walk(a.test) if isinstance(n, ast.Name)]:
                    guarded = True
                a = getattr(a, '_parent', None)
            chk.ob('C13.R4', tag + '/unlink-guarded-by-temp-set', guarded, where(mod, u),
                   'unlink must only run when the temp file was created')
        # every path from handler entry ends in raise PySmiWriterError (no fall-through to exit)
        hreach = cfg.reach([hn], edge_filter=lambda a, b, l: not (l == 'exc' and b is cfg.raise_exit and not (
            a.kind == 'stmt' and isinstance(a.ast, ast.Raise))))
        falls = cfg.exit in hreach
        rs = [x for x in walk_no_nested(h) if isinstance(x, ast.Raise)]
        good = [x for x in rs if x.exc is not None and 'PySmiWriterError' in model.exc_ancestors(
            mod, x.exc.func if isinstance(x.exc, ast.Call) else x.exc)]
        chk.ob('C13.R4', tag + '/handler-raises-writer-error', bool(good) and len(good) == len(rs) and not falls and
               isinstance(h.body[-1], ast.Raise), where(mod, h), 'failure must surface as PySmiWriterError on every path')
        # temp var initialised to None before try
        init = [s for s in fn.body if isinstance(s, ast.Assign) and _key_is(s.targets[0], tf) and
                isinstance(s.value, ast.Constant) and s.value.value is None and s.lineno < t.lineno]
        chk.ob('C13.R4', tag + '/temp-var-initialised', bool(init), where(mod, t),
               '%s must be None before mkstemp so the handler knows whether a temp file exists' % tf)
        # no swallowing inner handler between mkstemp and rename steps (a nested try around write that passes)
        for c in steps:
            ts = enclosing_trys(common.stmt_of(c), fn)
            if len(ts) > 1:
                chk.ob('C13.R4', tag + '/nested-try-around-%s' % dotted_name(c.func), False, where(mod, c),
                       'a nested try can swallow the failure of this step')
        # makedirs
        for c in by.get('os.makedirs', []):
            ts = enclosing_trys(common.stmt_of(c), fn)
            hh = cr.handler_covering(model, mod, ts[0], ('OSError', 'Exception', 'BaseException')) if ts else None
            ok = hh is not None and any(
                x.exc is not None and 'PySmiWriterError' in model.exc_ancestors(
                    mod, x.exc.func if isinstance(x.exc, ast.Call) else x.exc)
                for x in walk_no_nested(hh) if isinstance(x, ast.Raise)) and isinstance(hh.body[-1], ast.Raise)
            chk.ob('C13.R4', tag + '/makedirs-converted', ok, where(mod, c),
                   'directory creation failure must raise PySmiWriterError')
    chk.floor('C13.R4', 12, 'two writers')


def r5_compile_stage(chk):
    model = chk.model
    owner, fn, mod, cfg, by = analyse_writer(chk, 'pysmi/writer/pyfile.py', 'PyFileWriter')
    chk.doc('C13.R5', 'PyFileWriter byte-compile stage: runs only after the rename; SyntaxError/PyCompileError are '
                      'ignored; any other exception removes the stored module and raises PySmiWriterError')
    c13 = getattr(fn, '_c13', None)
    pcs = by.get('py_compile.compile', [])
    chk.ob('C13.R5', 'PyFileWriter.putData/py_compile-calls', len(pcs) >= 1, where(mod, fn), 'no py_compile call')
    for c in pcs:
        cn = cfg.node_of(common.stmt_of(c))
        if c13:
            chk.ob('C13.R5', 'PyFileWriter.putData/compile-after-rename', cfg.dominates(c13['rnode'], cn),
                   where(mod, c), 'byte-compilation must follow the rename')
            chk.ob('C13.R5', 'PyFileWriter.putData/compile-target', bool(c.args) and _key_is(c.args[0], c13['dest']),
                   where(mod, c), 'must compile the stored module')
        dr = [k for k in c.keywords if k.arg == 'doraise']
        chk.ob('C13.R5', 'PyFileWriter.putData/doraise', len(dr) == 1 and isinstance(dr[0].value, ast.Constant) and
               dr[0].value.value is True, where(mod, c), 'doraise=True needed to see failures')
        ts = enclosing_trys(common.stmt_of(c), fn)
        if not ts:
            chk.ob('C13.R5', 'PyFileWriter.putData/compile-in-try', False, where(mod, c), 'py_compile outside try')
            continue
        t = ts[0]
        names = [cr.handler_type_names(model, mod, h) for h in t.handlers]
        wide = [h for h in t.handlers if cr.handler_type_names(model, mod, h)[0] in ('Exception', 'BaseException')]
        ok = bool(wide)
        if ok:
            h = wide[0]
            unl = [x for x in walk_no_nested(h) if isinstance(x, ast.Call) and dotted_name(x.func) in (
                'os.unlink', 'os.remove') and c13 and x.args and _key_is(x.args[0], c13['dest'])]
            rs = [x for x in walk_no_nested(h) if isinstance(x, ast.Raise) and x.exc is not None and
                  'PySmiWriterError' in model.exc_ancestors(mod, x.exc.func if isinstance(x.exc, ast.Call) else x.exc)]
            ok = bool(unl) and bool(rs) and isinstance(h.body[-1], ast.Raise)
        chk.ob('C13.R5', 'PyFileWriter.putData/compile-failure-handler', ok, where(mod, t),
               'handlers %s: a failure other than a syntax error must remove the module and raise PySmiWriterError'
               % names)
    # guarded by self.pyCompile only
    chk.floor('C13.R5', 4, 'compile stage')


def r6_siblings(chk):
    chk.doc('C13.R6', 'FileWriter.putData and PyFileWriter.putData perform the same mutator sequence up to the '
                      'byte-compile stage')
    seqs = {}
    for rel, cname in WRITERS:
        owner, fn, mod, cfg, by = analyse_writer(chk, rel, cname)
        seq = [d for d, c in sorted(mutator_calls(fn), key=lambda x: (x[1].lineno, x[1].col_offset))
               if d != 'py_compile.compile']
        # drop the compile-stage unlink (after py_compile)
        pcs = [c for d, c in mutator_calls(fn) if d == 'py_compile.compile']
        if pcs:
            first = min(c.lineno for c in pcs)
            seq = [d for d, c in sorted(mutator_calls(fn), key=lambda x: (x[1].lineno, x[1].col_offset))
                   if c.lineno < first]
        seqs[cname] = seq
    a, b = seqs['FileWriter'], seqs['PyFileWriter']
    chk.ob('C13.R6', 'writers/mutator-sequence', a == b, 'pysmi/writer', 'FileWriter %s vs PyFileWriter %s' % (a, b))


def r7_callback_writer(chk):
    model = chk.model
    ci = model.cls('pysmi/writer/callback.py', 'CallbackWriter')
    o, fn = ci.find_method('putData')
    chk.doc('C13.R7', 'CallbackWriter.putData: the user callback gets (name, text, context) unchanged and any exception '
                      'it raises surfaces as PySmiWriterError')
    calls = [c for c in walk_no_nested(fn) if isinstance(c, ast.Call) and common.is_self_attr(c.func, '_cbFun')]
    p = [a.arg for a in fn.args.args]
    ok = len(calls) == 1 and [norm(a) for a in calls[0].args] == [p[1], p[2], 'self._cbCtx']
    chk.ob('C13.R7', 'CallbackWriter.putData/callback-args', ok, where(ci.mod, fn), '%s' % [norm(c) for c in calls])
    if calls:
        ts = enclosing_trys(common.stmt_of(calls[0]), fn)
        h = cr.handler_covering(model, ci.mod, ts[0], ('Exception', 'BaseException')) if ts else None
        good = h is not None and isinstance(h.body[-1], ast.Raise) and 'PySmiWriterError' in model.exc_ancestors(
            ci.mod, h.body[-1].exc.func if isinstance(h.body[-1].exc, ast.Call) else h.body[-1].exc)
        chk.ob('C13.R7', 'CallbackWriter.putData/failure-converted', good, where(ci.mod, fn),
               'a failing callback must raise PySmiWriterError')


def r8_argument_agreement(chk):
    rels = sorted(r for r in chk.model.modules if r.startswith(('pysmi/writer/',)))
    common.argument_agreement(chk, 'C13.R8', rels, floor=1)



def r9_failure_after_rename_leaves_no_file(chk, rule='C13.R9'):
    """a writer error raised once the destination file is in place is preceded by its removal"""
    model = chk.model
    chk.doc(rule, 'putData of the file writers: on every path from the successful rename to an explicit raise the '
                  'destination file is removed (os.unlink/os.remove of the rename target, or the path runs through '
                  'the false branch of an existence test of it) - a module reported failed leaves no file behind')
    n = 0
    for rel, cname in WRITERS:
        owner, fn, mod, cfg, by = analyse_writer(chk, rel, cname)
        rn = by.get('os.rename', []) + by.get('os.replace', [])
        if len(rn) != 1 or len(rn[0].args) != 2:
            chk.ob(rule, '%s.putData/rename' % cname, False, where(mod, fn), 'no single rename(tmp, dest)')
            continue
        dest = norm(rn[0].args[1])
        rnode = cfg.node_of(common.stmt_of(rn[0]))
        removers = set()
        for st in ast.walk(fn):
            if isinstance(st, ast.Call) and dotted_name(st.func) in ('os.unlink', 'os.remove') and st.args and \
                    norm(st.args[0]) == dest:
                nd = cfg.node_of(common.stmt_of(st))
                if nd is not None:
                    removers.add(nd)

        def exists_test(node):
            return node.kind == 'test' and any(
                isinstance(c, ast.Call) and dotted_name(c.func) in ('os.access', 'os.path.exists', 'os.path.isfile')
                and c.args and norm(c.args[0]) == dest for c in ast.walk(node.expr))
        seen = cfg.reach_from_edges([(rnode, 'n')], avoid=removers,
                                    edge_filter=lambda a, b, l: not (l == 'F' and exists_test(a)))
        raises = [nd for nd in seen if nd.kind == 'stmt' and isinstance(nd.ast, ast.Raise)]
        n += 1
        chk.ob(rule, '%s.putData/no-raise-with-file-in-place' % cname, not raises,
               where(mod, raises[0].ast) if raises else where(mod, fn),
               'after %s succeeded this raise is reached without removing %s: compile() records the module as failed '
               'while its file stays in the destination' % (norm(rn[0]), dest))
    chk.floor(rule, 2, 'file writers')


def r10_wellformedness(chk):
    rels = sorted(r for r in chk.model.modules if r.startswith(('pysmi/writer/',)))
    common.wellformedness(chk, 'C13.R10', rels, floor=8)



def r11_guard_polarity_and_name(chk):
    """directory creation, temp-file cleanup and byte-compilation run exactly under their conditions; the stored file
    carries the writer's suffix; the text written is the text given (comments only prepended)"""
    model = chk.model
    chk.doc('C13.R11', 'file writers, by reachability under a valuation of the predicates: os.makedirs only when the '
                       'directory does not exist; unlink of the temp file only when one was created (and, where '
                       'tested, still exists); py_compile only when self.pyCompile; the rename target is '
                       'os.path.join(self._path, decode(<name>)) plus the writer suffix (self.suffix / '
                       'SOURCE_SUFFIXES[0]); the buffer written is encode(<data>), where data is the parameter, '
                       'optionally with the comment header prepended when comments are given')
    for rel, cname in WRITERS:
        owner, fn, mod, cfg, by = analyse_writer(chk, rel, cname)
        tag = '%s.putData' % cname
        p = [a.arg for a in fn.args.args]
        for c in by.get('os.makedirs', []):
            d = norm(c.args[0]) if c.args else '?'
            common.requires(chk, 'C13.R11', tag + '/makedirs', cfg, mod, [cfg.node_of(common.stmt_of(c))],
                            {'os.path.exists(%s)' % d: False, p[4]: False})
        rn = by.get('os.rename', []) + by.get('os.replace', [])
        if len(rn) == 1 and len(rn[0].args) == 2:
            tf, dest = norm(rn[0].args[0]), norm(rn[0].args[1])
            for c in by.get('os.unlink', []) + by.get('os.remove', []):
                if c.args and norm(c.args[0]) == tf:
                    need = {tf: True}
                    if any(isinstance(x, ast.Call) and dotted_name(x.func) == 'os.access' and x.args and
                           norm(x.args[0]) == tf for x in walk_no_nested(fn)):
                        need['os.access(%s, os.F_OK)' % tf] = True
                    common.requires(chk, 'C13.R11', tag + '/unlink-temp', cfg, mod, [cfg.node_of(common.stmt_of(c))], need)
            # destination name
            defs_ = [st for st in fn.body if isinstance(st, (ast.Assign, ast.AugAssign)) and
                     norm(st.targets[0] if isinstance(st, ast.Assign) else st.target) == dest]
            txt = ' ; '.join(norm(st) for st in defs_)
            b = common.pmatch(txt, '%s = os.path.join(self._path, decode(%s))' % (dest, p[1]), full=False)
            suffix_ok = ('+ self.suffix' in txt) if cname == 'FileWriter' else ('%s += SOURCE_SUFFIXES[0]' % dest in txt or
                                                                                  '+ SOURCE_SUFFIXES[0]' in txt)
            chk.ob('C13.R11', tag + '/destination-name', b is not None and suffix_ok and len(defs_) <= 2,
                   where(mod, rn[0]), 'destination is built by: %s' % txt[:120])
        for c in by.get('py_compile.compile', []):
            common.requires(chk, 'C13.R11', tag + '/byte-compile', cfg, mod, [cfg.node_of(common.stmt_of(c))],
                            {'self.pyCompile': True, p[4]: False})
        # the text: buf = encode(data); data only re-bound as header + data under `if comments`
        enc = [st for st in walk_no_nested(fn) if isinstance(st, ast.Assign) and isinstance(st.value, ast.Call) and
               dotted_name(st.value.func) == 'encode']
        chk.ob('C13.R11', tag + '/writes-the-given-text', len(enc) == 1 and [norm(a) for a in enc[0].value.args] == [p[2]],
               where(mod, fn), 'the buffer must be encode(%s)' % p[2])
        rebinds = [st for st in walk_no_nested(fn) if isinstance(st, (ast.Assign, ast.AugAssign)) and
                   norm(st.targets[0] if isinstance(st, ast.Assign) else st.target) == p[2]]
        for st in rebinds:
            ok = isinstance(st, ast.Assign) and isinstance(st.value, ast.BinOp) and isinstance(st.value.op, ast.Add) and \
                norm(st.value.right) == p[2] and p[2] not in [n.id for n in ast.walk(st.value.left)
                                                              if isinstance(n, ast.Name)]
            chk.ob('C13.R11', tag + '/text-only-prefixed', ok, where(mod, st), 'the module text is changed: %s' % norm(st)[:80])
            if ok:
                common.requires(chk, 'C13.R11', tag + '/comment-header', cfg, mod, [cfg.node_of(st)], {p[3]: True})
    chk.floor('C13.R11', 20, 'two writers')



def t1_typestate(chk):
    """typestate analysis of compile() (rules/compile_ts.py): end-to-end bookkeeping invariants for an arbitrary
    module over every outcome of every component call"""
    from rules import compile_ts
    compile_ts.ts_rule(chk, 'C13.T1', ['nowrite-switch'])



def r12_success_means_renamed(chk, rule='C13.R12'):
    """A normal return of putData means the full text is on disk under the module's name: every path from the entry
    to a normal exit passes through the rename onto the destination - except the dry-run return."""
    chk.doc(rule, 'file writers: every non-exceptional path through putData runs through os.rename(<temp>, <destination>) '
                  'unless it leaves through the `if dryRun` return; no other early return ("unchanged", "up to date") '
                  'may report success without storing')
    for rel, cname in WRITERS:
        owner, fn, mod, cfg, by = analyse_writer(chk, rel, cname)
        rn = by.get('os.rename', []) + by.get('os.replace', [])
        guards = [n for n in cfg.nodes if n.kind == 'test' and _key_is(n.expr, 'dryRun')]
        if not rn or not guards:
            chk.ob(rule, '%s.putData/rename-before-success' % cname, False, where(mod, fn),
                   'no rename / no dry-run test found')
            continue
        rn_nodes = set(cfg.node_of(common.stmt_of(c)) for c in rn)
        g = guards[0]
        dry = cfg.reach([m for m, l in g.succ if l == 'T'], skip_labels=('exc',))
        # normal-exit paths that avoid the rename and do not go through the dry-run branch
        avoid = set(rn_nodes) | set(m for m, l in g.succ if l == 'T')
        reach = cfg.reach(cfg.entry, avoid=avoid)
        exits = [p for p, l in cfg.exit.pred if p in reach and p not in dry]
        chk.ob(rule, '%s.putData/rename-before-success' % cname, not exits, where(mod, fn),
               'putData can return normally without having renamed the new file into place (from line(s) %s)'
               % sorted(set(p.lineno for p in exits if p.lineno)))
    chk.floor(rule, 2, 'two file writers')


RULES = [r1_dryrun, r2_typestate, r3_complete_write, r4_cleanup, r5_compile_stage, r6_siblings, r7_callback_writer, r8_argument_agreement,
         r9_failure_after_rename_leaves_no_file, r10_wellformedness,
         r11_guard_polarity_and_name, t1_typestate, r12_success_means_renamed]
