"""C03 - JSON output is well formed and holds exactly the declared symbols."""
import ast

from vt.cfg import CFG
from vt.grammar import shipped_dialects, PARSER
from vt.model import walk_no_nested, norm, dotted_name
from vt.shapes import Sym, Tup, Const, Cond, Idx
from vt.tmpl import TemplateModel, expr_info
from vt.runner import where, AnalysisError
from rules import common, ir
from rules.C07 import _key_is
from rules.C17 import shapes

EXPLANATION = (
    "Rules on the path declaration -> IR record -> JSON: the declaration kinds the grammar builds are exactly the "
    "eleven clause tags both generators handle; every clause handler registers exactly one record on every path "
    "(the type-declaration guard agrees with its symbol-table sibling) under the normalised declared name; the "
    "record's class is the documented class of its kind; each stored field (status, maxaccess, units, revisions, "
    "oid, syntax, ...) receives the value unpacked from the clause position whose grammar symbol is that field's "
    "clause (positions come from the abstract interpretation of the grammar actions); the symbol-table pass records "
    "the order of every symbol it registers; emission copies one record per symbol of that order or fails; the "
    "JSON template is a single tojson dump and record keys are string constants; the two transOpers agree.")
ASSUMPTIONS = ["value equality of texts and constraints is covered by C15/C05",
               "jinja2's tojson produces valid JSON for dicts with str keys and JSON-representable values"]
TECHNIQUE = 'grammar-term positions joined with handler unpack (provenance), CFG exactly-one-call, sibling AST equality'

INTER = ir.INTER
SYMTAB = ir.SYMTAB

CLASS_OF = {
    'agentCapabilitiesClause': 'agentcapabilities', 'moduleIdentityClause': 'moduleidentity',
    'moduleComplianceClause': 'modulecompliance', 'notificationGroupClause': 'notificationgroup',
    'notificationTypeClause': 'notificationtype', 'objectGroupClause': 'objectgroup',
    'objectIdentityClause': 'objectidentity', 'objectTypeClause': 'objecttype', 'trapTypeClause': 'notificationtype',
    'typeDeclaration': 'type', 'valueDeclaration': 'objectidentity',
}

# field -> grammar roles (nonterminal name, or keyword word for (KEYWORD, Text) pairs) allowed to feed it
FIELD_ROLES = {
    'status': ['Status'], 'maxaccess': ['MaxOrPIBAccessPart'], 'units': ['UnitsPart'], 'revisions': ['RevisionPart'],
    'productrelease': ['PRODUCT-RELEASE'], 'description': ['DESCRIPTION', 'descriptionClause', 'DescrPart'],
    'reference': ['ReferPart'], 'syntax': ['Syntax'], 'default': ['DefValPart'], 'indices': ['MibIndex'],
    'augmention': ['IndexPart'], 'modulecompliance': ['ComplianceModulePart'],
    'objects': ['NotificationObjectsPart', 'ObjectGroupObjectsPart', 'NotificationsPart', 'VarPart'],
    'lastupdated': ['LAST-UPDATED'], 'organization': ['ORGANIZATION'], 'contactinfo': ['CONTACT-INFO'],
    'oid': ['objectIdentifier', 'ObjectName', 'NotificationName', 'EnterprisePart'],
    'name': ['LOWERCASE_IDENTIFIER', 'fuzzy_lowercase_identifier', 'typeName'],
    'nodetype': ['Syntax'],
}


def clause_roles(model):
    """tag -> list of roles per data position, merged over the shipped dialects"""
    out = {}
    ship = shipped_dialects(model)
    for dname in ('smiV2', 'smiV1', 'smiV1Relaxed'):
        gs = shapes(model, ship[dname])
        for p in gs.d.prods:
            t = gs.terms_k[p]
            if not (isinstance(t, Tup) and t.items and isinstance(t.items[0], Const) and t.items[0].v in ir.CLAUSES):
                continue
            sym_t = gs.terms[p]
            roles = []
            for comp, comp_k in zip(sym_t.items[1:], t.items[1:]):
                if isinstance(comp, Sym):
                    roles.append(p.rhs[comp.i - 1])
                elif isinstance(comp_k, Tup) and comp_k.items and isinstance(comp_k.items[0], Const):
                    roles.append(comp_k.items[0].v)
                else:
                    roles.append(repr(comp))
            prev = out.get(t.items[0].v)
            if prev is None:
                out[t.items[0].v] = [set([r]) for r in roles]
            elif len(prev) == len(roles):
                for s, r in zip(prev, roles):
                    s.add(r)
            else:
                raise AnalysisError('clause %s has different arity in dialect %s' % (t.items[0].v, dname))
    return out


def r1_kinds(chk):
    model = chk.model
    chk.unit(INTER, SYMTAB, PARSER)
    chk.doc('C03.R1', 'the tagged tuples a `declaration` can be are exactly the eleven clause kinds, each a key of '
                      'both handlersTables')
    ship = shipped_dialects(model)
    for dname in ('smiV2', 'smiV1Relaxed'):
        gs = shapes(model, ship[dname])
        tags = set(tag for (ar, tag) in gs.av['declaration'].tuples)
        chk.ob('C03.R1', '%s/declaration-kinds' % dname, tags == set(ir.CLAUSES), PARSER,
               'kinds built by the grammar: %s' % sorted(tags, key=str))
    for rel, cname in ((SYMTAB, 'SymtableCodeGen'), (INTER, 'IntermediateCodeGen')):
        tbl = ir.handlers_table(model.cls(rel, cname))
        for tag in ir.CLAUSES:
            chk.ob('C03.R1', '%s/handles %s' % (cname, tag), tag in tbl, rel, 'no handler for %s' % tag)
    # dispatch: genCode calls self.handlersTable[declr[0]] for every non-empty declaration
    for rel, cname in ((SYMTAB, 'SymtableCodeGen'), (INTER, 'IntermediateCodeGen')):
        o, fn = model.cls(rel, cname).find_method('genCode')
        loops = [n for n in walk_no_nested(fn) if isinstance(n, ast.For) and 'declarations' in norm(n.iter)]
        dv = loops[0].target.id if len(loops) == 1 and isinstance(loops[0].target, ast.Name) else '?'
        ok = len(loops) == 1 and any(isinstance(c, ast.Call) and 'self.handlersTable[%s[0]]' % dv in norm(c.func)
                                     for c in walk_no_nested(loops[0]))
        if ok:
            skips = [n for n in walk_no_nested(loops[0]) if isinstance(n, (ast.Continue, ast.Break, ast.Return))]
            tests = [norm(n.test) for n in walk_no_nested(loops[0]) if isinstance(n, ast.If)]
            ok = not skips and tests == [dv]
        chk.ob('C03.R1', '%s.genCode/dispatches-every-declaration' % cname, ok, where(o.mod, fn),
               'every non-empty declaration must be dispatched through handlersTable')


def r2_one_registration(chk):
    model = chk.model
    clauses = ir.clause_model(model)
    ci = model.cls(INTER, 'IntermediateCodeGen')
    mod = ci.mod
    chk.doc('C03.R2', 'each clause handler calls self.regSym(<normalised declared name>, <record>) exactly once on '
                      'every path; genTypeDeclaration registers under the same guards as its symbol-table sibling; '
                      'the record member `name` is the registered name')
    sci = model.cls(SYMTAB, 'SymtableCodeGen')
    stbl = ir.handlers_table(sci)
    for tag, c in sorted(clauses.items()):
        cfg = CFG(c.fn)
        rnodes = set(cfg.node_of(common.stmt_of(r)) for r in c.regs)
        key = 'IntermediateCodeGen.%s' % c.name
        if tag == 'typeDeclaration':
            def guards_with_early_exits(call, fn_):
                # `if not X: return` at the top of the function guards everything behind it just as `if X:` would
                st = common.stmt_of(call)
                pre = []
                for top in fn_.body:
                    if top.lineno >= st.lineno:
                        break
                    if isinstance(top, ast.If) and not top.orelse and len(top.body) == 1 and \
                            isinstance(top.body[0], ast.Return) and top.body[0].value is None and \
                            isinstance(top.test, ast.UnaryOp) and isinstance(top.test.op, ast.Not):
                        pre.append(norm(top.test.operand))
                return pre + [norm(t) for t, b in ir.guards_of(st, fn_)]
            g1 = [g for r in c.regs for g in guards_with_early_exits(r, c.fn)]
            o, sfn = sci.find_method(stbl['typeDeclaration'])
            sregs = [n for n in walk_no_nested(sfn) if isinstance(n, ast.Call) and isinstance(n.func, ast.Attribute)
                     and n.func.attr == 'regSym']
            g2 = [g for r in sregs for g in guards_with_early_exits(r, sfn)]
            chk.ob('C03.R2', key + '/registration-guard', g1 == g2 and len(c.regs) == 1, where(mod, c.fn),
                   'registered under %s, symbol table registers under %s' % (g1, g2))
        else:
            at_least = bool(rnodes) and cfg.exit not in cfg.reach([cfg.entry], avoid=rnodes, skip_labels=('exc',))
            twice = any(rnodes & cfg.reach([m for m, l in r.succ if l != 'exc'], skip_labels=('exc',)) for r in rnodes)
            chk.ob('C03.R2', key + '/exactly-one-regSym', at_least and not twice and len(c.regs) == 1, where(mod, c.fn),
                   'a path %s' % ('registers no record' if not at_least else 'registers more than one record'))
        for r in c.regs:
            a0 = r.args[0] if r.args else None
            namevar = c.unpack[0] if c.unpack else None
            ok = isinstance(a0, ast.Name) and a0.id == namevar
            # normalised before the call
            norm_asg = [s for s in walk_no_nested(c.fn) if isinstance(s, ast.Assign) and _key_is(s.targets[0], namevar)
                        and norm(s.value) == 'self.transOpers(%s)' % namevar and s.lineno < r.lineno]
            chk.ob('C03.R2', key + '/registered-name', ok and len(norm_asg) == 1, where(mod, r),
                   'the record must be registered under transOpers(<declared name>)')
            ns = [s for s in c.stores if s.var == c.record_var and s.key == ('name',)]
            ok2 = len(ns) == 1 and _key_is(ns[0].value, namevar)
            chk.ob('C03.R2', key + '/record-name-member', ok2, where(mod, ns[0].node) if ns else where(mod, c.fn),
                   'the record member "name" must be the declared name of this clause')
    chk.floor('C03.R2', 30, 'eleven clause handlers')


def r3_classes(chk):
    model = chk.model
    clauses = ir.clause_model(model)
    mod = model.mod(INTER)
    chk.doc('C03.R3', 'the record class constant of each clause kind is the documented one')
    for tag, c in sorted(clauses.items()):
        chk.ob('C03.R3', 'IntermediateCodeGen.%s/class' % c.name, c.classes == [CLASS_OF[tag]], where(mod, c.fn),
               'class constant(s) %s, expected %r' % (c.classes, CLASS_OF[tag]))
    # textual conventions get their class from the RHS record
    keys = ir.record_keys(model, ['genTypeDeclarationRHS'])
    ci = model.cls(INTER, 'IntermediateCodeGen')
    o, fn = ci.find_method('genTypeDeclarationRHS')
    tc = [s for s in ir.record_stores(fn) if s.key == ('class',) and isinstance(s.value, ast.Constant)]
    chk.ob('C03.R3', 'genTypeDeclarationRHS/textualconvention-class', [s.value.value for s in tc] == [
        'textualconvention'], where(mod, fn), 'TEXTUAL-CONVENTION must be class textualconvention')


def origin_of(c, var, before_line):
    """unpack position feeding local `var` (following `a, b = x`, `x = self.f(x, ..)`, `x = x and ...`)"""
    seen = set()
    cur = var
    for _ in range(4):
        if c.unpack and cur in c.unpack:
            # latest reassignment from another unpack var?
            asg = [s for s in walk_no_nested(c.fn) if isinstance(s, ast.Assign) and s.lineno < before_line and any(
                cur in [n.id for n in ast.walk(t) if isinstance(n, ast.Name)] for t in s.targets) and
                s is not c.fn.body[0]]
            srcs = set()
            for s in asg:
                for n in ast.walk(s.value):
                    if isinstance(n, ast.Name) and n.id in c.unpack and n.id != cur:
                        srcs.add(n.id)
            if len(srcs) == 1 and not any(isinstance(n, ast.Name) and n.id == cur for s in asg for n in ast.walk(s.value)):
                cur = srcs.pop()
                continue
            return c.unpack.index(cur)
        if cur in seen:
            return None
        seen.add(cur)
        asg = [s for s in walk_no_nested(c.fn) if isinstance(s, ast.Assign) and s.lineno < before_line and any(
            cur in [n.id for n in ast.walk(t) if isinstance(n, ast.Name)] for t in s.targets)]
        if not asg:
            return None
        names = [n.id for n in ast.walk(asg[-1].value) if isinstance(n, ast.Name) and c.unpack and n.id in c.unpack]
        if len(set(names)) != 1:
            return None
        cur = names[0]
    return None


def r4_field_provenance(chk, rule='C03.R4', fields=None):
    model = chk.model
    clauses = ir.clause_model(model)
    mod = model.mod(INTER)
    roles = clause_roles(model)
    chk.doc(rule, 'each record field is fed from the clause component whose grammar symbol is that field\'s clause '
                  '(status <- Status, maxaccess <- MaxAccessPart, units <- UnitsPart, revisions <- RevisionPart, oid '
                  '<- the object identifier, ...), and the handler unpacks exactly the components the grammar supplies')
    n = 0
    for tag, c in sorted(clauses.items()):
        rl = roles.get(tag)
        if rl is None:
            chk.ob(rule, '%s/grammar-term' % tag, False, PARSER, 'no grammar action builds a %s tuple' % tag)
            continue
        chk.ob(rule, 'IntermediateCodeGen.%s/unpack-arity' % c.name, c.unpack is not None and len(c.unpack) == len(rl),
               where(mod, c.fn), 'handler unpacks %s names, grammar supplies %d components' % (
                   len(c.unpack) if c.unpack else None, len(rl)))
        if c.unpack is None or len(c.unpack) != len(rl):
            continue
        for s in c.stores:
            if s.var != c.record_var or s.key[0] not in FIELD_ROLES or s.key[0] in ('nodetype', 'name'):
                continue
            if len(s.key) == 2 and s.key[1] != 'object':
                continue
            if len(s.key) == 1 and isinstance(s.value, ast.Call) and not s.value.args and not s.value.keywords:
                continue  # empty sub-record, filled by nested stores
            if fields and s.key[0] not in fields:
                continue
            k = s.key[0]
            names = [x.id for x in ast.walk(s.value) if isinstance(x, ast.Name) and x.id != 'self']
            pos = None
            for nm in names:
                p = origin_of(c, nm, s.node.lineno + 1)
                if p is not None:
                    pos = p
                    break
            if pos is None:
                if k == 'nodetype':
                    continue
                chk.ob(rule, 'IntermediateCodeGen.%s/%s' % (c.name, k), False, where(mod, s.node),
                       'cannot trace %s back to a clause component' % norm(s.value)[:40])
                continue
            n += 1
            ok = bool(rl[pos] & set(FIELD_ROLES[k]))
            chk.ob(rule, 'IntermediateCodeGen.%s/%s' % (c.name, k), ok, where(mod, s.node),
                   'field %r is fed from clause component %d (%s), expected one of %s' % (
                       k, pos + 1, '/'.join(sorted(rl[pos])), FIELD_ROLES[k]))
    chk.floor(rule, 30 if not fields else 5, 'fields traced to clause components')


def r5_emission(chk):
    model = chk.model
    ci = model.cls(INTER, 'IntermediateCodeGen')
    mod = ci.mod
    o, fn = ci.find_method('genCode')
    chk.doc('C03.R5', 'IntermediateCodeGen.genCode copies self._out[sym] to the document for every sym of the symbol '
                      'table\'s _symtable_order, raising PySmiCodegenError for a symbol without record; besides the '
                      'symbols only `imports` and `meta` are added; the symbol-table pass appends every symbol it '
                      'registers to that order')
    loops = [n for n in fn.body if isinstance(n, ast.For) and "['_symtable_order']" in norm(n.iter)]
    chk.ob('C03.R5', 'genCode/emission-loop', len(loops) == 1 and
           norm(loops[0].iter) == "self.symbolTable[self.moduleName[0]]['_symtable_order']", where(mod, fn),
           'emission must iterate the symbol table order of the module being compiled')
    if len(loops) == 1:
        lp = loops[0]
        sym = lp.target.id
        guard = [s for s in lp.body if isinstance(s, ast.If) and norm(s.test) == '%s not in self._out' % sym and
                 s.body and isinstance(s.body[-1], ast.Raise)]
        okg = len(guard) == 1 and 'PySmiError' in model.exc_ancestors(
            mod, guard[0].body[-1].exc.func if isinstance(guard[0].body[-1].exc, ast.Call) else guard[0].body[-1].exc)
        chk.ob('C03.R5', 'genCode/missing-record-raises', okg, where(mod, lp), 'a symbol without record must raise')
        copy = [s for s in lp.body if isinstance(s, ast.Assign) and isinstance(s.targets[0], ast.Subscript) and
                norm(s.targets[0].slice) == sym and norm(s.value) == 'self._out[%s]' % sym]
        chk.ob('C03.R5', 'genCode/copies-record-under-its-name', len(copy) == 1 and lp.body[-1] is copy[0] and
               not [x for x in walk_no_nested(lp) if isinstance(x, (ast.Continue, ast.Break))], where(mod, lp),
               'outDict[sym] = self._out[sym] expected for every symbol')
        dv = copy[0].targets[0].value.id if copy else None
        other = set()
        for s in fn.body:
            if isinstance(s, ast.Assign) and isinstance(s.targets[0], ast.Subscript) and \
                    _key_is(s.targets[0].value, dv) and isinstance(s.targets[0].slice, ast.Constant):
                other.add(s.targets[0].slice.value)
        chk.ob('C03.R5', 'genCode/extra-keys', other == set(['meta']), where(mod, fn), 'extra document keys %s' % sorted(
            other))
    # symtable: every _out store is paired with an order append
    sci = model.cls(SYMTAB, 'SymtableCodeGen')
    n = 0
    for mname, f in sorted(sci.methods.items()):
        for s in walk_no_nested(f):
            if isinstance(s, ast.Assign) and isinstance(s.targets[0], ast.Subscript) and \
                    common.is_self_attr(s.targets[0].value, '_out') and not isinstance(s.targets[0].slice, ast.Constant):
                n += 1
                key = norm(s.targets[0].slice)
                from rules.C07 import block_of
                sib = block_of(s)
                ok = any(isinstance(x, ast.Expr) and norm(x.value) == 'self._symsOrder.append(%s)' % key for x in sib)
                chk.ob('C03.R5', 'SymtableCodeGen.%s/order-recorded(%s)' % (mname, key), ok, where(sci.mod, s),
                       'a symbol enters the symbol table without being appended to the emission order: it is '
                       'compiled but missing from the output')
    chk.floor('C03.R5', 5, 'emission loop + symbol table order')
    o2, sg = sci.find_method('genCode')
    ok = any(isinstance(s, ast.Assign) and norm(s.targets[0]) == "self._out['_symtable_order']" and
             norm(s.value) in ('list(self._symsOrder)', 'self._symsOrder') for s in sg.body)
    chk.ob('C03.R5', 'SymtableCodeGen.genCode/publishes-order', ok, where(sci.mod, sg), '')


def r6_transopers_siblings(chk, rule='C03.R6'):
    model = chk.model
    chk.doc(rule, 'SymtableCodeGen.transOpers and IntermediateCodeGen.transOpers are the same function: names '
                  'normalised by one index the tables filled by the other')
    o1, f1 = model.cls(SYMTAB, 'SymtableCodeGen').find_method('transOpers')
    o2, f2 = model.cls(INTER, 'IntermediateCodeGen').find_method('transOpers')
    same = ast.dump(ast.Module(body=f1.body, type_ignores=[])) == ast.dump(ast.Module(body=f2.body, type_ignores=[]))
    chk.ob(rule, 'transOpers-siblings', same, where(o1.mod, f1),
           'the symbol table pass maps Python keywords to pysmi_<kw> while the generator only maps hyphens: a symbol '
           'named like a keyword is registered under one name and looked up under another')


def r7_json_document(chk):
    model = chk.model
    chk.doc('C03.R7', 'jsondoc/base.j2 is a single `{{ mib|tojson(...) }}` output with no further filter; every key of '
                      'a dict display / subscript store that builds IR records is a string constant')
    tm = TemplateModel(chk.repo, 'pysmi/codegen/templates/jsondoc/base.j2')
    outs = tm.outputs()
    ok = len(outs) == 1
    if ok:
        root, path, filters = expr_info(tm.env, outs[0][1])
        ok = root == 'mib' and path == () and filters == ['tojson']
    chk.ob('C03.R7', 'jsondoc/base.j2', ok, tm.rel, 'outputs: %s' % [o[1] for o in outs])
    # ... and JsonCodeGen.genCode hands that rendering back untouched (no textual post-processing of the document)
    from vt.runner import Check
    from rules.C04 import r1_shared_ir
    tmp = Check(chk.prop, chk.tier, chk.model, chk.repo)
    r1_shared_ir(tmp)
    for o_ in tmp.obligations:
        if o_.key == 'JsonCodeGen.genCode/rendered-text-returned-as-is':
            chk.ob('C03.R7', o_.key, o_.ok, o_.where, o_.detail)
    ci = model.cls(INTER, 'IntermediateCodeGen')
    n = 0
    for mname, fn in sorted(ci.methods.items()):
        for d in ast.walk(fn):
            if isinstance(d, ast.Dict):
                for k in d.keys:
                    n += 1
                    if k is not None and not (isinstance(k, ast.Constant) and isinstance(k.value, str)):
                        chk.ob('C03.R7', 'IntermediateCodeGen.%s/dict-key %s' % (mname, norm(k)), False,
                               where(ci.mod, k), 'a record key is the expression `%s` (not a string constant): with '
                               'the builtin of that name as key the document is not serialisable' % norm(k))
    chk.ob('C03.R7', 'IR-dict-keys', n > 10, INTER, '%d dict display keys inspected' % n)
    # JsonCodeGen.genCode renders the IR context unchanged
    o, fn = model.cls('pysmi/codegen/jsondoc.py', 'JsonCodeGen').find_method('genCode')
    calls = [c for c in walk_no_nested(fn) if isinstance(c, ast.Call) and isinstance(c.func, ast.Attribute) and
             c.func.attr == 'render']
    b0 = common.pmatch([s for s in fn.body if isinstance(s, ast.Assign)][0],
                       '$mi, $ctx = IntermediateCodeGen.genCode(self, ast, symbolTable, **kwargs)')
    ctxv = b0['ctx'] if b0 else 'context'
    ok = len(calls) == 1 and [k.arg for k in calls[0].keywords] == ['mib'] and norm(calls[0].keywords[0].value) == ctxv
    ctx_stores = [s for s in walk_no_nested(fn) if isinstance(s, (ast.Assign, ast.AugAssign)) and any(
        ctxv in [n.id for n in ast.walk(t) if isinstance(n, ast.Name)]
        for t in (s.targets if isinstance(s, ast.Assign) else [s.target])) and not (
        isinstance(s, ast.Assign) and isinstance(s.targets[0], ast.Tuple))]
    chk.ob('C03.R7', 'JsonCodeGen.genCode/renders-context-unchanged', ok and not ctx_stores, where(o.mod, fn),
           'the JSON back-end must render the IR as it is')


def r8_nodetype(chk):
    """node type of every OBJECT-TYPE matches the declaration: same rule as C06.R7"""
    from rules.C06 import r7_nodetype
    r7_nodetype(chk, rule='C03.R8')


def r9_revision_time(chk):
    model = chk.model
    ci = model.cls(INTER, 'IntermediateCodeGen')
    o, fn = ci.find_method('genTime')
    chk.subject(fn, 'IntermediateCodeGen.genTime')
    chk.doc('C03.R9', 'genTime: an 11-character ExtUTCTime (YYMMDDHHMMZ) is prefixed with the century 19 (RFC 2578 '
                      'section 2) and every time string is parsed with the four-digit-year format %Y%m%d%H%MZ and '
                      'rendered as %Y-%m-%d %H:%M; genRevisions uses it for every revision in order')
    fmts = [norm(c.args[1]) for c in walk_no_nested(fn) if isinstance(c, ast.Call) and dotted_name(c.func) == 'strptime'
            and len(c.args) == 2]
    chk.ob('C03.R9', 'genTime/parse-format', bool(fmts) and set(fmts) == set(["'%Y%m%d%H%MZ'"]), where(ci.mod, fn),
           'time strings are parsed with %s' % sorted(set(fmts)))
    outs = [norm(c.args[0]) for c in walk_no_nested(fn) if isinstance(c, ast.Call) and dotted_name(c.func) == 'strftime']
    chk.ob('C03.R9', 'genTime/render-format', bool(outs) and set(outs) == set(["'%Y-%m-%d %H:%M'"]), where(ci.mod, fn),
           'times are rendered with %s' % sorted(set(outs)))
    short = [n for n in walk_no_nested(fn) if isinstance(n, ast.If) and common.pmatch(n.test, 'len($t) == 11') is not None]
    ok = len(short) == 1 and len(short[0].body) == 1 and \
        common.pmatch(short[0].body[0], "$t = '19' + $t") is not None
    chk.ob('C03.R9', 'genTime/two-digit-year', ok, where(ci.mod, fn),
           'a two-digit year must be completed with the century 19')
    o2, gr = ci.find_method('genRevisions')
    ok = any(common.pmatch(s, "$r['revision'] = self.genTime([$x[0]])[0]") is not None for s in walk_no_nested(gr)
             if isinstance(s, ast.Assign))
    lp = [n for n in gr.body if isinstance(n, ast.For)]
    ok = ok and len(lp) == 1 and norm(lp[0].iter) == '%s[0]' % gr.args.args[1].arg
    chk.ob('C03.R9', 'genRevisions/uses-genTime-in-order', ok, where(ci.mod, gr), '')
    cl = ir.clause_model(model)['moduleIdentityClause']
    st = [s for s in cl.stores if s.key == ('revisions',)]
    chk.ob('C03.R9', 'genModuleIdentity/revisions-stored', len(st) == 1, where(ci.mod, cl.fn), '')


def r10_per_module_state(chk):
    """records of one module must not depend on the module generated before: shared with C12.R2/R3"""
    from vt.runner import Check
    from rules.C12 import r2_generator_reset
    chk.doc('C03.R10', 'every attribute the handlers write (columns, rows, seen symbols, import map, records, revision) '
                       'is re-initialised at the start of genCode in both generators (C12.R2)')
    tmp = Check(chk.prop, chk.tier, chk.model, chk.repo)
    r2_generator_reset(tmp)
    for o in tmp.obligations:
        if o.rule == 'C12.R2' and (o.key.startswith('SymtableCodeGen/') or o.key.startswith('IntermediateCodeGen/')):
            chk.ob('C03.R10', o.key, o.ok, o.where, o.detail)
    chk.floor('C03.R10', 12, 'attributes of the two generators')


def r12_fields_not_gated_by_text_switch(chk):
    from rules.C15 import r7_only_texts_are_gated
    r7_only_texts_are_gated(chk, rule='C03.R12')


def r11_argument_agreement(chk):
    rels = sorted(r for r in chk.model.modules if r.startswith(('pysmi/codegen/',)))
    common.argument_agreement(chk, 'C03.R11', rels, floor=40)



def r13_collectors(chk):
    ci = chk.model.cls(INTER, 'IntermediateCodeGen')
    ir.elementwise_collectors(chk, 'C03.R13', ci, ['genRevisions', 'genTime'], 2)



def r14_record_completeness(chk, rule='C03.R14', fields=None):
    """every clause component that has a field is stored, and only its own presence decides whether it is"""
    model = chk.model
    clauses = ir.clause_model(model)
    mod = model.mod(INTER)
    roles = clause_roles(model)
    from rules.C15 import mentions_text_switch, GATED, ALSO_GATED
    chk.doc(rule, 'per clause handler: each component the grammar supplies that has a record field (status, units, '
                  'maxaccess, description, reference, revisions, syntax, default, oid, objects, ...) is stored under '
                  'that field; the store is conditional on nothing but the truthiness of that same component '
                  '(positive branch, and-chains only) and, for the descriptive texts, the text switch')
    n = 0
    for tag, c in sorted(clauses.items()):
        rl = roles.get(tag)
        if rl is None or c.unpack is None or len(c.unpack) != len(rl):
            continue   # reported by R4
        by_field = {}
        for s_ in c.stores:
            if s_.var != c.record_var or not s_.key:
                continue
            names = [x.id for x in ast.walk(s_.value) if isinstance(x, ast.Name) and x.id != 'self']
            pos = None
            for nm in names:
                pos = origin_of(c, nm, s_.node.lineno + 1)
                if pos is not None:
                    break
            by_field.setdefault(s_.key[0], []).append((s_, pos))
        for i, rs in enumerate(rl):
            want = sorted(f for f, accepted in FIELD_ROLES.items() if rs & set(accepted) and f not in ('nodetype',))
            if fields:
                want = [f for f in want if f in fields]
            if not want or c.unpack[i] is None:
                continue
            got = [f for f in want if any(pos == i for s_, pos in by_field.get(f, []))]
            if 'name' in want and not got:
                got = ['name'] if any(True for s_, pos in by_field.get('name', [])) else []
            n += 1
            chk.ob(rule, 'IntermediateCodeGen.%s/stores %s' % (c.name, '|'.join(want)), bool(got), where(mod, c.fn),
                   'component %d (%s, local `%s`) is never stored as %s: the declared value is dropped from the '
                   'record' % (i + 1, '/'.join(sorted(rs)), c.unpack[i], ' or '.join(want)))
        for f, lst in sorted(by_field.items()):
            if f not in FIELD_ROLES or f in ('nodetype', 'name') or (fields and f not in fields):
                continue
            for s_, pos in lst:
                if pos is None or len(s_.key) != 1:
                    continue
                bad = []
                for test, in_body in s_.guards:
                    if not in_body:
                        bad.append('else-branch of `%s`' % norm(test)[:50])
                        continue
                    for cj in ir.conjuncts(test):
                        if mentions_text_switch(cj):
                            if isinstance(cj, ast.UnaryOp) or not (f in GATED or f in ALSO_GATED):
                                bad.append(norm(cj))
                            continue
                        core = cj
                        while isinstance(core, ast.Subscript):
                            core = core.value
                        if isinstance(core, ast.Name) and origin_of(c, core.id, s_.node.lineno + 1) == pos:
                            continue
                        bad.append(norm(cj)[:60])
                n += 1
                chk.ob(rule, 'IntermediateCodeGen.%s/%s-own-guard' % (c.name, f), not bad, where(mod, s_.node),
                       'the store of %r depends on %s; it may depend only on the presence of the clause component it '
                       'holds%s' % (f, bad, ' and the text switch' if f in GATED else ''))
    # sub-records created empty and filled by nested stores: all members present (augmention: name, module, object)
    c = clauses.get('objectTypeClause')
    if c is not None and not fields:
        sub = sorted(s_.key[1] for s_ in c.stores if s_.var == c.record_var and len(s_.key) == 2 and
                     s_.key[0] == 'augmention')
        chk.ob(rule, 'IntermediateCodeGen.%s/augmention-members' % c.name, sub == ['module', 'name', 'object'],
               where(mod, c.fn), 'members stored under augmention: %s' % sub)
    # the textual-convention handler is not a top-level clause; same two obligations for its four text/status parts
    ci = model.cls(INTER, 'IntermediateCodeGen')
    o, tc = ci.find_method('genTypeDeclarationRHS')
    unp = [st for st in walk_no_nested(tc) if isinstance(st, ast.Assign) and isinstance(st.targets[0], ast.Tuple) and
           _key_is(st.value, tc.args.args[1].arg) and len(st.targets[0].elts) == 5]
    chk.ob(rule, 'IntermediateCodeGen.genTypeDeclarationRHS/unpack', len(unp) == 1, where(mod, tc),
           'display, status, description, reference, syntax = data')
    if len(unp) == 1:
        names = [e.id if isinstance(e, ast.Name) else None for e in unp[0].targets[0].elts]
        stores = ir.record_stores(tc)
        for key, var in zip(('displayhint', 'status', 'description', 'reference'), names[:4]):
            if fields and key not in fields:
                continue
            ss = [s_ for s_ in stores if s_.key == (key,) and _key_is(s_.value, var)]
            n += 1
            chk.ob(rule, 'IntermediateCodeGen.genTypeDeclarationRHS/stores %s' % key, len(ss) == 1, where(mod, tc),
                   'the %s of a textual convention (local `%s`) is not stored' % (key, var))
            for s_ in ss:
                bad = []
                for test, in_body in s_.guards:
                    if norm(test) == 'len(%s) == 1' % tc.args.args[1].arg and not in_body:
                        continue   # the TC branch itself
                    if not in_body:
                        bad.append('else-branch of `%s`' % norm(test)[:40])
                        continue
                    for cj in ir.conjuncts(test):
                        if norm(cj) == var:
                            continue
                        if norm(cj) == "self.genRules['text']" and key in GATED:
                            continue
                        bad.append(norm(cj)[:50])
                chk.ob(rule, 'IntermediateCodeGen.genTypeDeclarationRHS/%s-own-guard' % key, not bad, where(mod, s_.node),
                       'the store of %r depends on %s' % (key, bad))
    chk.floor(rule, 60 if not fields else 10, 'components and stores')



def r17_declared_names(chk):
    """The JSON document names every symbol as the MIB declares it, up to the one documented substitution (hyphen ->
    underscore).  IntermediateCodeGen.transOpers produces both the record key and the `name` member, so whatever else
    it does to a name (a keyword prefix, case mapping, truncation) shows in the document."""
    model = chk.model
    o, fn = model.cls(INTER, 'IntermediateCodeGen').find_method('transOpers')
    chk.doc('C03.R17', 'IntermediateCodeGen.transOpers(symbol) returns symbol with "-" replaced by "_" and nothing else: '
                       'a single return of <param>.replace("-", "_") (or "_".join(<param>.split("-"))); no branch, no '
                       'prefix, no other transformation of the declared name')
    param = fn.args.args[-1].arg
    body = [st for st in fn.body if not (isinstance(st, ast.Expr) and isinstance(st.value, ast.Constant))]
    ok = len(body) == 1 and isinstance(body[0], ast.Return) and body[0].value is not None and \
        norm(body[0].value) in ("%s.replace('-', '_')" % param, "'_'.join(%s.split('-'))" % param)
    chk.ob('C03.R17', 'IntermediateCodeGen.transOpers', ok, where(o.mod, fn),
           'transOpers is `%s`: names in the JSON document (record keys, `name` members, object references) would '
           'differ from the declared names by more than the hyphen substitution' % '; '.join(norm(s)[:60] for s in body))



def r_absent_values_C03_R15(chk):
    """optional clause parts are used where they are present, not where they are absent"""
    common.no_value_taken_from_an_absent_operand(chk, 'C03.R15', ['pysmi/codegen/intermediate.py', 'pysmi/codegen/symtable.py', 'pysmi/codegen/jsondoc.py', 'pysmi/codegen/pysnmp.py'], floor=2)



def r16_symbol_table_registration(chk, rule='C03.R16'):
    """The document is emitted by walking the symbol table's registration order (C03.R5), and OIDs / base types are
    resolved through the symbol table's records: a clause the symbol-table pass does not register, or registers
    without the member the later passes read, is silently absent or unresolvable."""
    model = chk.model
    sci = model.cls(SYMTAB, 'SymtableCodeGen')
    stbl = ir.handlers_table(sci)
    clauses = ir.clause_model(model)
    chk.doc(rule, 'each of the eleven clause handlers of SymtableCodeGen calls self.regSym(transOpers(<declared name>), '
                  '<record>[, parents]) exactly once on every path (genTypeDeclaration: under `declaration` / parent type '
                  'only); the record is a dict display holding oid for OID-bearing clauses and syntax for OBJECT-TYPE and type '
                  'declarations - the members genNumericOid / getBaseType read (type / origName / defval are read by nobody)')
    need = {'typeDeclaration': set(['syntax'])}
    n = 0
    for tag in sorted(clauses):
        hname = stbl.get(tag)
        if hname is None:
            chk.ob(rule, 'SymtableCodeGen/%s handler' % tag, False, SYMTAB, 'no handler')
            continue
        o, fn = sci.find_method(hname)
        key = 'SymtableCodeGen.%s' % hname
        cfg = CFG(fn)
        regs = [c for c in walk_no_nested(fn) if isinstance(c, ast.Call) and common.is_self_attr(c.func, 'regSym')]
        # the registration of the declared symbol: first argument is transOpers(<first unpacked name>)
        un = [a.id for s in fn.body if isinstance(s, ast.Assign) and isinstance(s.targets[0], ast.Tuple) and
              _key_is(s.value, fn.args.args[1].arg) for a in s.targets[0].elts if isinstance(a, ast.Name)]
        namevar = un[0] if un else None
        normed = [s.targets[0].id for s in walk_no_nested(fn) if isinstance(s, ast.Assign) and
                  isinstance(s.targets[0], ast.Name) and norm(s.value) == 'self.transOpers(%s)' % namevar]
        own = [c for c in regs if c.args and isinstance(c.args[0], ast.Name) and c.args[0].id in normed]
        n += 1
        if tag == 'typeDeclaration':
            chk.ob(rule, key + '/registers-the-declared-symbol', len(own) == 1, where(o.mod, fn),
                   '%d registrations of the declared symbol' % len(own))
            # on every path on which the declaration and its parent type exist (a SEQUENCE has none) the type is
            # registered: no other condition can leave a declared type out of the document
            dvar = un[1] if len(un) > 1 else None
            pv = [a.id for s in walk_no_nested(fn) if isinstance(s, ast.Assign) and isinstance(s.targets[0], ast.Tuple)
                  and dvar and _key_is(s.value, dvar) for a in s.targets[0].elts if isinstance(a, ast.Name)]
            if own and dvar and pv:
                rnodes = set(cfg.node_of(common.stmt_of(r)) for r in own)
                seen_ = common.reach_under(cfg, [cfg.entry], {dvar: True, pv[0]: True}, avoid=rnodes)
                chk.ob(rule, key + '/registered-whenever-it-has-a-parent-type', cfg.exit not in seen_, where(o.mod, fn),
                       'a path leaves the handler without registering the declared type although `%s` and `%s` hold: '
                       'the type is missing from the symbol table and so from the document' % (dvar, pv[0]))
        else:
            rnodes = set(cfg.node_of(common.stmt_of(r)) for r in own)
            at_least = bool(rnodes) and cfg.exit not in cfg.reach([cfg.entry], avoid=rnodes, skip_labels=('exc',))
            chk.ob(rule, key + '/registers-the-declared-symbol', len(own) == 1 and at_least, where(o.mod, fn),
                   'the declared symbol is registered %s' % ('on no path / not on every path' if not (own and at_least)
                                                             else '%d times' % len(own)))
        for r in own:
            rec = r.args[1] if len(r.args) > 1 else None
            disp = None
            if isinstance(rec, ast.Name):
                ds = [s.value for s in walk_no_nested(fn) if isinstance(s, ast.Assign) and _key_is(s.targets[0], rec.id)
                      and isinstance(s.value, ast.Dict)]
                disp = ds[0] if len(ds) == 1 else None
            elif isinstance(rec, ast.Dict):
                disp = rec
            keys = dict((k.value, v) for k, v in zip(disp.keys, disp.values) if isinstance(k, ast.Constant)) if disp \
                is not None else {}
            want = need.get(tag, set(['oid']) | (set(['syntax']) if tag == 'objectTypeClause' else set()))
            missing = sorted(want - set(keys))
            n += 1
            chk.ob(rule, key + '/record-members', disp is not None and not missing, where(o.mod, r),
                   'the record lacks %s' % missing if disp is not None else 'the record is not a dict display')
    chk.floor(rule, 20, 'eleven symbol-table clause handlers')



def r18_names_are_case_sensitive(chk):
    """the document names symbols exactly as declared (case included)"""
    common.names_are_case_sensitive(chk, 'C03.R18', ['pysmi/codegen/intermediate.py', 'pysmi/codegen/symtable.py',
                                                     'pysmi/codegen/base.py', 'pysmi/codegen/jsondoc.py'], floor=3)



def r19_clause_components_not_replaced(chk, rule='C03.R19', both=True):
    """What a clause says reaches the record: a variable unpacked from the clause data is re-assigned only from an
    expression that reads that same variable (name = self.transOpers(name), defval = self.genDefVal(defval, ..)) - never
    from a constant or from something else (maxaccess = 'not-accessible')."""
    model = chk.model
    clauses = ir.clause_model(model)
    chk.doc(rule, 'in every clause handler (IR and symbol table) a variable unpacked from the clause data is only ever '
                  're-assigned from an expression that reads that variable itself: no component of a declaration is '
                  'replaced by a constant or by another component')
    n = 0
    gens = [(INTER, 'IntermediateCodeGen')] + ([(SYMTAB, 'SymtableCodeGen')] if both else [])
    for rel, cname in gens:
        ci = model.cls(rel, cname)
        tbl = ir.handlers_table(ci)
        for tag in sorted(clauses):
            hname = tbl.get(tag)
            if not hname:
                continue
            o, fn = ci.find_method(hname)
            un = [a.id for s in fn.body if isinstance(s, ast.Assign) and isinstance(s.targets[0], ast.Tuple) and
                  _key_is(s.value, fn.args.args[1].arg) for a in s.targets[0].elts if isinstance(a, ast.Name)]
            if not un:
                continue
            n += 1
            bad = []
            for st in walk_no_nested(fn):
                if isinstance(st, ast.Assign):
                    for t in st.targets:
                        for tt in (t.elts if isinstance(t, ast.Tuple) else [t]):
                            if isinstance(tt, ast.Name) and tt.id in un and not _key_is(st.value, fn.args.args[1].arg):
                                reads = any(isinstance(x, ast.Name) and x.id == tt.id for x in ast.walk(st.value))
                                if not reads:
                                    bad.append(st)
            chk.ob(rule, '%s.%s' % (cname, hname), not bad, where(o.mod, bad[0]) if bad else where(o.mod, fn),
                   'a clause component is replaced: `%s`' % (norm(bad[0])[:70] if bad else ''))
    chk.floor(rule, 11, 'clause handlers')



def r20_imports_entry_always_built(chk):
    """the document always carries an `imports` entry (at least the constant base-module imports): genCode calls
    genImports for every module, also one without an IMPORTS clause"""
    model = chk.model
    ci = model.cls(INTER, 'IntermediateCodeGen')
    o, fn = ci.find_method('genCode')
    chk.doc('C03.R20', 'IntermediateCodeGen.genCode calls self.genImports(...) in a top-level statement (not under a test '
                       'of the IMPORTS clause) and starts the document from its result')
    calls = [c for c in walk_no_nested(fn) if isinstance(c, ast.Call) and common.is_self_attr(c.func, 'genImports')]
    top = [c for c in calls if common.stmt_of(c) in fn.body]
    chk.ob('C03.R20', 'genCode/genImports-unconditional', len(calls) == 1 and len(top) == 1,
           where(ci.mod, calls[0]) if calls else where(ci.mod, fn),
           'genImports is called %d time(s), %d of them unconditionally' % (len(calls), len(top)))



def r21_column_list_normalised(chk):
    """node types come from the symbol table's published column list: it must hold the names in the spelling they are
    looked up under (shared with C06.R1)"""
    from rules.C06 import r1_normalisation
    common.reuse(chk, r1_normalisation, ('C06.R1',), 'C03.R21',
                 'the tables the node classification reads (_symtable_cols, _symtable_rows, import map) are filled and '
                 'queried in the same (normalised) spelling (C06.R1)', keep=lambda o: '_symtable' in o.key or 'cols' in o.key,
                 floor=1)


RULES = [r1_kinds, r2_one_registration, r3_classes, r4_field_provenance, r5_emission, r6_transopers_siblings,
         r7_json_document, r8_nodetype, r9_revision_time, r10_per_module_state, r11_argument_agreement,
         r12_fields_not_gated_by_text_switch, r13_collectors,
         r14_record_completeness, r17_declared_names, r_absent_values_C03_R15, r16_symbol_table_registration, r18_names_are_case_sensitive, r19_clause_components_not_replaced, r20_imports_entry_always_built, r21_column_list_normalised]
