"""C19 - borrowing happens only for modules that cannot be compiled, and verbatim."""
import ast

from vt.cfg import in_subtree, enclosing_trys, CFG
from vt.model import walk_no_nested, norm, dotted_name
from vt.runner import where, AnalysisError
from rules import compile_roles as cr
from rules import common
from rules.C07 import _key_is, iter_source, block_of

EXPLANATION = (
    "Typestate analysis of compile() (rule C19.T1): the statements of compile() are interpreted over an abstract "
    "state that tracks one arbitrary module through every local map, with every component call returning or raising "
    "any package error class, every option setting and every iteration order; invariants are evaluated at the "
    "component calls and at every return (see rules/compile_ts.py INV). "
    "Rules on the two borrow stages of compile() and on AbstractBorrower.getData: the borrowed map is filled only "
    "inside the loop over a snapshot of the FAILED map, from the result of a successful borrower.getData(name, "
    "genTexts=options.get('genTexts')) on the borrowers in order, followed by removal from FAILED and `break`; the "
    "borrowed text reaches the built map (and so putData, see C07.R6) unchanged with status borrowed; the noDeps "
    "exclusions of both borrow stages keep every requested name eligible; the borrower compares the requested "
    "flavour bool(genTexts) with its own before the reader is asked and nothing weakens that test; the extension "
    "list of the borrower is injected into the reader call.")
ASSUMPTIONS = ["contents served by borrower readers are runtime data",
               "FAILED holds exactly the modules that could not be found or compiled (C07.R5, C09.R3)"]
TECHNIQUE = 'AST/CFG rules: provenance of the borrowed text, dominance of the flavour test, guard-set membership; typestate abstract interpretation of compile() (path-sensitive dataflow over a finite per-module domain, rules/compile_ts.py)'


def borrow_get(r):
    """the getData call on a borrower (loop variable over self._borrowers)"""
    out = []
    for c in r.calls.get('getData', []):
        lp = cr.enclosing_loop(cr.stmt_of(c, r.fn), r.fn)
        if isinstance(lp, ast.For) and common.is_self_attr(lp.iter, '_borrowers'):
            out.append((c, lp))
    return out


def r1_borrow_loop(chk):
    r = cr.infer(chk.model)
    cfg = r.cfg
    chk.unit('pysmi/compiler.py:MibCompiler.compile')
    chk.doc('C19.R1', 'borrowers are asked only inside the loop over FAILED.copy(), in order; the borrowed map is '
                      'stored only after a successful getData(name, genTexts=options.get("genTexts")); then the '
                      'module leaves FAILED and the search breaks; borrower errors go on to the next borrower')
    gets = borrow_get(r)
    chk.ob('C19.R1', 'compile/borrower-getData-sites', len(gets) == 1, where(r.mod, r.fn),
           '%d borrower.getData call sites' % len(gets))
    if len(gets) != 1:
        return
    c, bloop = gets[0]
    st = cr.stmt_of(c, r.fn)
    floop = cr.enclosing_loop(bloop, r.fn)
    ok = isinstance(floop, ast.For) and iter_source(floop) == r.failed and not isinstance(floop.iter, ast.Name) and \
        isinstance(floop.target, ast.Name)
    chk.ob('C19.R1', 'compile/borrow-loop-over-failed', ok, where(r.mod, bloop),
           'borrowers must be asked per key of a snapshot of the FAILED map (outer loop iterates %s)' % (
               norm(floop.iter) if floop is not None else 'nothing'))
    if not ok:
        return
    k = floop.target.id
    opt = r.fn.args.kwarg.arg if r.fn.args.kwarg else 'options'
    chk.ob('C19.R1', 'compile/borrower-call-receiver', isinstance(bloop.target, ast.Name) and
           _key_is(c.func.value, bloop.target.id), where(r.mod, c), 'getData must be called on the loop borrower')
    chk.ob('C19.R1', 'compile/borrower-call-name', bool(c.args) and _key_is(c.args[0], k), where(r.mod, c),
           'borrower must be asked for the failed module name')
    gt = [kw for kw in c.keywords if kw.arg == 'genTexts']
    chk.ob('C19.R1', 'compile/borrower-call-genTexts', len(gt) == 1 and norm(gt[0].value) == "%s.get('genTexts')" % opt,
           where(r.mod, c), 'genTexts=options.get("genTexts") must be passed to the borrower')
    # stores into borrowed map(s): which work map receives a tuple with the data var
    data_var = info_var = None
    if isinstance(st, ast.Assign) and isinstance(st.targets[0], ast.Tuple) and len(st.targets[0].elts) == 2:
        info_var, data_var = [e.id if isinstance(e, ast.Name) else None for e in st.targets[0].elts]
    bmaps = set()
    for s in walk_no_nested(r.fn):
        ss = cr.subscript_store(s)
        if ss and ss[0] in r.work and in_subtree(s, bloop):
            bmaps.add(ss[0])
    chk.ob('C19.R1', 'compile/borrowed-map', len(bmaps) == 1, where(r.mod, bloop), 'borrowed map(s): %s' % sorted(bmaps))
    if len(bmaps) != 1:
        return
    bmap = list(bmaps)[0]
    r._c19 = (bmap, k, floop, bloop)
    # every store into bmap anywhere is inside bloop's try body after getData, and has the verbatim data
    for s in walk_no_nested(r.fn):
        ss = cr.subscript_store(s)
        if not (ss and ss[0] == bmap):
            continue
        inside = in_subtree(s, bloop)
        t = enclosing_trys(s, r.fn)
        after = bool(t) and in_subtree(st, t[0]) and s.lineno > st.lineno and any(s is b for b in t[0].body)
        v = ss[2]
        verbatim = isinstance(v, ast.Tuple) and len(v.elts) == 3 and _key_is(v.elts[2], data_var) and \
            _key_is(v.elts[0], info_var) and _key_is(ss[1], k)
        chk.ob('C19.R1', 'compile/%s[%s] = ...' % (bmap, norm(ss[1])), inside and after and verbatim, where(r.mod, s),
               'borrowed map must receive (info, MibInfo, <text returned by the borrower>) right after a successful '
               'getData, inside the borrow loop: %s' % norm(s)[:90])
    # after success: del FAILED[k] and break, in the try body
    t = enclosing_trys(st, r.fn)
    body = t[0].body if t else []
    has_del = any(d == r.failed and _key_is(kk, k) for s in body for d, kk in cr.del_targets(s)) or any(
        cr.pop_call(s) and cr.pop_call(s)[0] == r.failed and _key_is(cr.pop_call(s)[1], k) for s in body)
    has_break = bool(body) and isinstance(body[-1], ast.Break)
    chk.ob('C19.R1', 'compile/borrow-success-leaves-FAILED', has_del, where(r.mod, st),
           'a borrowed module must no longer count as a failure')
    chk.ob('C19.R1', 'compile/borrow-success-breaks', has_break, where(r.mod, st),
           'first successful borrower must end the search')
    # data var not modified between
    for s in body:
        for n in ast.walk(s):
            if isinstance(n, ast.Name) and n.id == data_var and isinstance(n.ctx, ast.Store) and s is not st:
                chk.ob('C19.R1', 'compile/borrowed-text-modified', False, where(r.mod, s), norm(s)[:80])
    # handler: generic package error, goes on
    if t:
        h = cr.handler_covering(chk.model, r.mod, t[0], ('PySmiError', 'Exception', 'BaseException'))
        ok = h is not None and not [x for x in walk_no_nested(h) if isinstance(x, (ast.Raise, ast.Break, ast.Return))] \
            and not [x for x in walk_no_nested(h) if cr.subscript_store(x)]
        chk.ob('C19.R1', 'compile/borrower-error-next', ok, where(r.mod, t[0]),
               'a failing borrower must hand over to the next one without touching the bookkeeping')


def r2_hand_over(chk):
    r = cr.infer(chk.model)
    chk.doc('C19.R2', 'the second borrow stage moves borrowed[k] unchanged into the built map with the borrowed '
                      'status (path/file/alias of the borrowed copy), or marks it untouched; nothing else feeds the '
                      'built map except the code generation stage')
    if not hasattr(r, '_c19'):
        chk.ob('C19.R2', 'compile/borrow-stage', False, r.mod.rel, 'first borrow stage not recognised (C19.R1)')
        return
    bmap, k0, floop, bloop = r._c19
    put = r.calls.get('putData', [])
    built = iter_source(cr.enclosing_loop(cr.stmt_of(put[0], r.fn), r.fn)) if put else None
    n = 0
    for s in walk_no_nested(r.fn):
        ss = cr.subscript_store(s)
        if not (ss and ss[0] == built):
            continue
        n += 1
        v = ss[2]
        lp = cr.enclosing_loop(s, r.fn)
        kk = lp.target.id if isinstance(lp, ast.For) and isinstance(lp.target, ast.Name) else None
        if isinstance(v, ast.Subscript) and _key_is(v.value, bmap):
            ok = _key_is(v.slice, kk) and _key_is(ss[1], kk) and iter_source(lp) == bmap
            chk.ob('C19.R2', 'compile/%s[k] = %s[k]' % (built, bmap), ok, where(r.mod, s), norm(s))
            # borrowed status in the same block
            sib = block_of(s)
            st_ok = any(cr.subscript_store(x) and cr.subscript_store(x)[0] == r.result and
                        _key_is(cr.subscript_store(x)[1], kk) and
                        cr.status_of(cr.subscript_store(x)[2], r.status_consts) == 'borrowed' for x in sib)
            chk.ob('C19.R2', 'compile/borrowed-status', st_ok, where(r.mod, s),
                   'moving a borrowed module to the built map must record the borrowed status')
        else:
            # code generation result: tuple whose third component comes from codegen.genCode
            t = enclosing_trys(s, r.fn)
            gen = [c for c in r.calls.get('genCode', []) if t and in_subtree(c, t[0])]
            ok = bool(gen) and isinstance(v, ast.Tuple) and len(v.elts) == 3
            if ok:
                gst = cr.stmt_of(gen[0], r.fn)
                ok = isinstance(gst, ast.Assign) and isinstance(gst.targets[0], ast.Tuple) and \
                    len(gst.targets[0].elts) == 2 and norm(gst.targets[0].elts[1]) == norm(v.elts[2])
            chk.ob('C19.R2', 'compile/%s[k] = codegen-result' % built, ok, where(r.mod, s),
                   'built map must receive the text produced by the code generator unchanged: %s' % norm(s)[:80])
    chk.floor('C19.R2', 3, 'two feeds of the built map + status')
    # borrowed status is only ever stored in that hand-over
    for s in walk_no_nested(r.fn):
        ss = cr.subscript_store(s)
        if ss and ss[0] == r.result and cr.status_of(ss[2], r.status_consts) == 'borrowed':
            sib = block_of(s)
            ok = any(cr.subscript_store(x) and cr.subscript_store(x)[0] == built and
                     isinstance(cr.subscript_store(x)[2], ast.Subscript) and
                     _key_is(cr.subscript_store(x)[2].value, bmap) for x in sib)
            chk.ob('C19.R2', 'compile/borrowed-status-only-with-hand-over', ok, where(r.mod, s),
                   'borrowed status recorded without handing the borrowed text to the writer stage')


def r3_flavour(chk):
    owner, fn = chk.model.method('pysmi/borrower/base.py', 'AbstractBorrower', 'getData')
    mod = owner.mod
    chk.unit('pysmi/borrower/base.py:AbstractBorrower.getData')
    chk.doc('C19.R3', 'AbstractBorrower.getData: `if bool(options.get("genTexts")) != self.genTexts: raise <package '
                      'error>` (no weakening conjunct) precedes and dominates self._reader.getData(name, **options); '
                      'exts defaults to the borrower\'s extension list; the reader result is returned unchanged')
    kw = fn.args.kwarg.arg if fn.args.kwarg else 'options'
    cfg = CFG(fn)
    rcalls = [c for c in walk_no_nested(fn) if isinstance(c, ast.Call) and isinstance(c.func, ast.Attribute) and
              c.func.attr == 'getData' and common.is_self_attr(c.func.value, '_reader')]
    chk.ob('C19.R3', 'AbstractBorrower.getData/reader-call', len(rcalls) == 1, where(mod, fn),
           '%d reader calls' % len(rcalls))
    if len(rcalls) != 1:
        return
    rc = rcalls[0]
    rn = cfg.node_of(common.stmt_of(rc))
    want = ("bool(%s.get('genTexts'))" % kw, "bool(%s.get('genTexts', False))" % kw)
    own = ('self.genTexts', 'bool(self.genTexts)')
    guard = None
    for n in cfg.nodes:
        if n.kind == 'test' and isinstance(n.ast, ast.If) and cfg.dominates(n, rn):
            t = n.ast.test
            if isinstance(t, ast.Compare) and len(t.ops) == 1 and isinstance(t.ops[0], (ast.NotEq, ast.IsNot)):
                a, b = norm(t.left), norm(t.comparators[0])
                if (a in want and b in own) or (b in want and a in own):
                    guard = n
    ok = guard is not None
    detail = 'no test `bool(options.get("genTexts")) != self.genTexts` dominates the reader call'
    if ok:
        body = guard.ast.body
        rs = [x for x in body if isinstance(x, ast.Raise)]
        anc = chk.model.exc_ancestors(mod, rs[0].exc.func if isinstance(rs[0].exc, ast.Call) else rs[0].exc) if rs else []
        ok = bool(rs) and 'PySmiError' in anc and isinstance(body[-1], ast.Raise)
        detail = 'flavour mismatch must raise a package error'
    chk.ob('C19.R3', 'AbstractBorrower.getData/flavour-test', ok, where(mod, guard.ast if guard else fn), detail)
    # arguments of the reader call
    p_name = fn.args.args[1].arg
    a_ok = bool(rc.args) and _key_is(rc.args[0], p_name) and any(k.arg is None and _key_is(k.value, kw)
                                                                for k in rc.keywords)
    chk.ob('C19.R3', 'AbstractBorrower.getData/reader-args', a_ok, where(mod, rc), norm(rc))
    ret = common.stmt_of(rc)
    chk.ob('C19.R3', 'AbstractBorrower.getData/returns-reader-result', isinstance(ret, ast.Return) and ret.value is rc,
           where(mod, rc), 'the reader result must be returned unchanged')
    # exts injection
    inj = [s for s in walk_no_nested(fn) if isinstance(s, ast.Assign) and isinstance(s.targets[0], ast.Subscript) and
           _key_is(s.targets[0].value, kw) and norm(s.targets[0].slice) == "'exts'" and norm(s.value) == 'self.exts']
    inj += [s for s in walk_no_nested(fn) if isinstance(s, ast.Assign) and _key_is(s.targets[0], kw) and
            norm(s.value) in ('dict(%s, exts=self.exts)' % kw,)]
    chk.ob('C19.R3', 'AbstractBorrower.getData/exts-default', bool(inj) and cfg.node_of(inj[0]).lineno < rn.lineno,
           where(mod, fn), "options['exts'] = self.exts must be injected before the reader call")
    if inj:
        common.requires(chk, 'C19.R3', 'AbstractBorrower.getData/exts-default-only-when-absent', cfg, mod,
                        [cfg.node_of(inj[0])], {"'exts' in %s" % kw: False},
                        'extensions given by the caller must not be overwritten')
    # constructor: the flavour given is kept (self.genTexts = genTexts when one is given), the reader is kept
    ci = chk.model.cls('pysmi/borrower/base.py', 'AbstractBorrower')
    o0, init = ci.find_method('__init__')
    if init is not None:
        ip = [a.arg for a in init.args.args]
        icfg = CFG(init)
        st_g = [s_ for s_ in walk_no_nested(init) if isinstance(s_, ast.Assign) and norm(s_) == 'self.genTexts = %s' % ip[2]]
        common.requires(chk, 'C19.R3', 'AbstractBorrower.__init__/keeps-flavour', icfg, mod,
                        [icfg.node_of(x) for x in st_g], {'%s is not None' % ip[2]: True},
                        'the genTexts flavour passed to the constructor must be stored')
        st_r = [s_ for s_ in init.body if isinstance(s_, ast.Assign) and norm(s_) == 'self._reader = %s' % ip[1]]
        chk.ob('C19.R3', 'AbstractBorrower.__init__/keeps-reader', len(st_r) == 1, where(mod, init), '')
    o1, so = ci.find_method('setOptions')
    if so is not None:
        kwn = so.args.kwarg.arg if so.args.kwarg else 'kwargs'
        txt = norm(so)
        ok = 'self._reader.setOptions(**%s)' % kwn in txt and common.pmatch(
            txt, 'for $k in %s:' % kwn, full=False) is not None and common.pmatch(
            txt, 'setattr(self, $k, %s[$k])' % kwn, full=False) is not None and \
            isinstance(so.body[-1], ast.Return) and norm(so.body[-1].value) == 'self'
        chk.ob('C19.R3', 'AbstractBorrower.setOptions', ok, where(mod, so),
               'options go to the reader and onto the borrower (setattr(self, k, kwargs[k])), returns self')
    # genTexts attribute default False / set from ctor
    o, v = ci.find_attr('genTexts')
    chk.ob('C19.R3', 'AbstractBorrower.genTexts-default', isinstance(v, ast.Constant) and v.value is False,
           where(mod, ci.node), 'class default of genTexts must be False')
    # file-extension variants of the borrowers
    for rel, cname, want_exts in (('pysmi/borrower/pyfile.py', 'PyFileBorrower', 'SOURCE_SUFFIXES'),):
        c2 = chk.model.cls(rel, cname)
        o2, v2 = c2.find_attr('exts')
        chk.ob('C19.R3', '%s.exts' % cname, v2 is not None and norm(v2) == want_exts, rel, 'exts = %s' % (
            norm(v2) if v2 is not None else None))


def ir_conjuncts(test):
    from rules.ir import conjuncts
    return conjuncts(test)


def r4_requested_stay_eligible(chk):
    r = cr.infer(chk.model)
    chk.doc('C19.R4', 'each noDeps exclusion in the borrow stages also requires `<name> not in <names given to '
                      'compile()>`: a requested module that could not be found or parsed is in no canonical-name set')
    vararg = r.fn.args.vararg.arg if r.fn.args.vararg else None
    opt = r.fn.args.kwarg.arg if r.fn.args.kwarg else 'options'
    if not hasattr(r, '_c19'):
        chk.ob('C19.R4', 'compile/borrow-stage', False, r.mod.rel, 'first borrow stage not recognised (C19.R1)')
        return
    bmap, k0, floop, bloop = r._c19
    # names that hold every requested name: the *args parameter itself or a set/list/tuple built from it
    req = set([vararg])
    for s0 in r.fn.body:
        if isinstance(s0, ast.Assign) and isinstance(s0.targets[0], ast.Name) and isinstance(s0.value, ast.Call) and \
                dotted_name(s0.value.func) in ('set', 'frozenset', 'list', 'tuple', 'dict.fromkeys') and \
                s0.value.args and _key_is(s0.value.args[0], vararg):
            stores = [n for n in walk_no_nested(r.fn) if isinstance(n, ast.Name) and n.id == s0.targets[0].id and
                      isinstance(n.ctx, ast.Store)]
            muts = [n for n in walk_no_nested(r.fn) if isinstance(n, ast.Call) and isinstance(n.func, ast.Attribute) and
                    _key_is(n.func.value, s0.targets[0].id) and n.func.attr in ('remove', 'discard', 'pop', 'clear',
                                                                                'difference_update')]
            if len(stores) == 1 and not muts:
                req.add(s0.targets[0].id)
    stages = [floop] + [l for l in walk_no_nested(r.fn) if isinstance(l, ast.For) and iter_source(l) == bmap]
    n = 0
    for lp in stages:
        k = lp.target.id
        for s in walk_no_nested(lp):
            if not isinstance(s, ast.If):
                continue
            if not any(norm(c).startswith("%s.get('noDeps'" % opt) for c in ast.walk(s.test)):
                continue
            n += 1
            conj = ir_conjuncts(s.test)
            ok = any(isinstance(c, ast.Compare) and len(c.ops) == 1 and isinstance(c.ops[0], ast.NotIn) and
                     _key_is(c.left, k) and isinstance(c.comparators[0], ast.Name) and c.comparators[0].id in req
                     for c in conj)
            chk.ob('C19.R4', 'compile/noDeps-borrow-exclusion#%d' % n, ok, where(r.mod, s),
                   'exclusion `%s` does not keep requested names eligible' % norm(s.test))
            # the exclusion holds exactly for: noDeps on, and the module in none of the sets of wanted names
            shape = all(norm(c).startswith("%s.get('noDeps'" % opt) or (
                isinstance(c, ast.Compare) and len(c.ops) == 1 and isinstance(c.ops[0], ast.NotIn) and
                _key_is(c.left, k)) for c in conj) and sum(1 for c in conj if norm(c).startswith(
                    "%s.get('noDeps'" % opt)) == 1
            chk.ob('C19.R4', 'compile/noDeps-borrow-exclusion#%d/shape' % n, shape, where(r.mod, s),
                   'the exclusion must be `noDeps and %s not in <wanted> [and %s not in <requested>]` (un-negated '
                   'and-chain of the switch and not-in tests only), found `%s`' % (k, k, norm(s.test)))
    chk.floor('C19.R4', 2, 'two borrow stages')


def r5_failed_map_consistency(chk):
    """A module that compiled successfully is never replaced by a borrowed copy: borrowing is fed from FAILED
    only (R1), so FAILED must forget a module exactly when a later source succeeded for it - same rule as C07.R5."""
    from rules.C07 import r5_failed_result_pairing
    r5_failed_result_pairing(chk, rule='C19.R5')


def r6_argument_agreement(chk):
    rels = sorted(r for r in chk.model.modules if r.startswith(('pysmi/borrower/', 'pysmi/compiler.py')))
    common.argument_agreement(chk, 'C19.R6', rels, floor=3)



def r7_borrower_order_is_fixed(chk):
    """borrowers are tried in the order they were added, in every compile() call (C08.R3 under this property)"""
    from rules.C08 import r3_ordering
    r3_ordering(chk, rule='C19.R7')


def r8_borrowed_status_survives_the_write(chk):
    """a module whose status was set to borrowed keeps it when its text is written"""
    r = cr.infer(chk.model)
    chk.doc('C19.R8', 'the store of the compiled status in the write stage is guarded by `<name> not in <result map>`: '
                      'a status recorded earlier for the module (borrowed) is not overwritten by compiled')
    stores = [s_ for s_ in walk_no_nested(r.fn) if cr.subscript_store(s_) and cr.subscript_store(s_)[0] == r.result and
              cr.status_of(cr.subscript_store(s_)[2], r.status_consts) == 'compiled']
    chk.ob('C19.R8', 'compile/compiled-stores', len(stores) == 1, where(r.mod, r.fn), '%d stores' % len(stores))
    for s_ in stores:
        key = norm(cr.subscript_store(s_)[1])
        guards = []
        a = getattr(s_, '_parent', None)
        child = s_
        while a is not None and a is not r.fn:
            if isinstance(a, ast.If) and child in a.body:
                guards.append(norm(a.test))
            elif isinstance(a, ast.If) and child in a.orelse and isinstance(a.test, ast.Compare) and \
                    len(a.test.ops) == 1 and isinstance(a.test.ops[0], ast.In):
                guards.append('%s not in %s' % (norm(a.test.left), norm(a.test.comparators[0])))
            child, a = a, getattr(a, '_parent', None)
        want = '%s not in %s' % (key, r.result)
        chk.ob('C19.R8', 'compile/compiled-only-when-no-status-yet', want in guards, where(r.mod, s_),
               'guards of the compiled store: %s (expected `%s`)' % (guards, want))
    bor = [s_ for s_ in walk_no_nested(r.fn) if cr.subscript_store(s_) and cr.subscript_store(s_)[0] == r.result and
           cr.status_of(cr.subscript_store(s_)[2], r.status_consts) == 'borrowed']
    chk.ob('C19.R8', 'compile/borrowed-stores', len(bor) == 1, where(r.mod, r.fn), '%d stores of borrowed' % len(bor))


def r9_wellformedness(chk):
    rels = sorted(r for r in chk.model.modules if r.startswith(('pysmi/borrower/',)))
    common.wellformedness(chk, 'C19.R9', rels, floor=4)




def t1_typestate(chk):
    """typestate analysis of compile() (rules/compile_ts.py): end-to-end bookkeeping invariants for an arbitrary
    module over every outcome of every component call"""
    from rules import compile_ts
    compile_ts.ts_rule(chk, 'C19.T1', ['borrow-failed-only', 'borrow-eligible', 'borrow-status', 'nodeps', 'verbatim', 'own-key'])



def r10_borrowed_text_read_verbatim(chk):
    """borrowers read through the ordinary readers: what FileReader returns is what gets written - shared with C14.R1"""
    from rules.C14 import r1_file_reader
    common.reuse(chk, r1_file_reader, ('C14.R1',), 'C19.R10',
                 'FileReader.getData (the reader behind the file borrowers) opens the file in binary mode and returns '
                 'decode(read(maxMibSize)) - no text-mode newline translation, no error-ignoring decoder - so a '
                 'borrowed module is written byte for byte (C14.R1)',
                 keep=lambda o: o.key.split('/')[-1] in ('binary-read', 'size-cap', 'same-path-stat-and-open'), floor=2)



def r11_every_borrower_is_asked(chk):
    from rules.C08 import r7_every_component_is_asked
    r7_every_component_is_asked(chk, rule='C19.R11', meths=('getData',), attrs=('_borrowers',))


def r12_borrowers_answer_from_configuration(chk):
    """borrowers are tried in the order added for every module: one that remembers an earlier failure is skipped"""
    common.lookups_leave_no_trace(chk, 'C19.R12', [('pysmi/borrower/base.py', 'AbstractBorrower'),
                                                   ('pysmi/borrower/pyfile.py', 'PyFileBorrower'),
                                                   ('pysmi/borrower/anyfile.py', 'AnyFileBorrower')], 'getData',
                                  'borrowers', floor=3)


RULES = [r1_borrow_loop, r2_hand_over, r3_flavour, r4_requested_stay_eligible, r5_failed_map_consistency, r6_argument_agreement,
         r7_borrower_order_is_fixed, r8_borrowed_status_survives_the_write, r9_wellformedness, t1_typestate, r10_borrowed_text_read_verbatim, r11_every_borrower_is_asked, r12_borrowers_answer_from_configuration]
