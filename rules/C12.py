"""C12 - results depend only on the input: no state leaks, no hash-seed dependence."""
import ast

from vt.cfg import CFG, in_subtree
from vt.model import walk_no_nested, norm, dotted_name
from vt.runner import where, AnalysisError
from rules import common
from rules.C07 import _key_is

EXPLANATION = (
    "Effect and dataflow rules: (R1) in SmiV2Parser.parse every path from the yacc call to a normal or exceptional "
    "exit passes a reset (or a reset dominates the call), SmiV2Parser.reset always calls the lexer's reset and the "
    "lexer's reset re-creates the ply lexer (or restores both line number and start state) on every path; (R2) for "
    "each code generator, every instance attribute written by any method reachable from genCode (self-calls, "
    "handlersTable dispatch, explicit base-class calls) is re-initialised in genCode before the first handler runs, "
    "by a value that does not read the old attribute; (R3) attributes whose object escapes to the caller (returned "
    "or stored into MibInfo) are re-created, not cleared in place; (R4) nothing reachable from the shared symbol "
    "table is mutated in place by the intermediate generator; (R5) every iteration/linearisation of a set-valued "
    "expression is sorted or is an audited order-insensitive site.")
ASSUMPTIONS = [
    "ply's generated parser object carries no state across parse() calls besides the lexer passed in",
    "time/host/user strings in the `comments` header are documented provenance notes and excluded",
    "audited order-insensitive sites are listed in rules/C12.py:ORDER_INSENSITIVE with one reason each",
]
TECHNIQUE = 'CFG must-pass-through (reset), class-wide write/reset effect analysis, taint of symbol-table aliases, ' \
            'set-iteration lint with audited exemptions; no instance state through locals in compile()'

GENERATORS = (('pysmi/codegen/symtable.py', 'SymtableCodeGen'), ('pysmi/codegen/intermediate.py', 'IntermediateCodeGen'),
              ('pysmi/codegen/jsondoc.py', 'JsonCodeGen'), ('pysmi/codegen/pysnmp.py', 'PySnmpCodeGen'))


# ---------------------------------------------------------------------------------------------- R1
def r1_parser_reset(chk, rule='C12.R1'):
    model = chk.model
    owner, fn = model.method('pysmi/parser/smi.py', 'SmiV2Parser', 'parse')
    mod = owner.mod
    chk.unit('pysmi/parser/smi.py:SmiV2Parser.parse/reset', 'pysmi/lexer/smi.py:SmiV2Lexer.reset')
    chk.doc(rule, 'the lexer is re-created around the yacc call on every path: reset on normal and exceptional '
                      'exits (finally / handler) or a reset that dominates the call; reset() really restores the '
                      'lexer (new lex.lex() object, or lineno = 1 together with begin("INITIAL"))')
    cfg = CFG(fn)
    ycalls = [c for c in walk_no_nested(fn) if isinstance(c, ast.Call) and isinstance(c.func, ast.Attribute) and
              c.func.attr == 'parse' and norm(c.func.value) == 'self.parser']
    chk.ob(rule, 'SmiV2Parser.parse/yacc-call', len(ycalls) == 1, where(mod, fn), '%d yacc parse calls' % len(ycalls))
    if len(ycalls) != 1:
        return
    yn = cfg.node_of(common.stmt_of(ycalls[0]))
    resets = set(n for n in cfg.nodes if n.kind == 'stmt' and any(
        isinstance(c, ast.Call) and norm(c.func) in ('self.reset', 'self.lexer.reset') for c in ast.walk(n.ast)))
    before = any(cfg.dominates(rn, yn) for rn in resets)
    after = cfg.reach([m for m, l in yn.succ], avoid=resets)
    leaks_normal = cfg.exit in after
    leaks_exc = cfg.raise_exit in after
    ok = before or not (leaks_normal or leaks_exc)
    chk.ob(rule, 'SmiV2Parser.parse/reset-on-all-exits', ok, where(mod, ycalls[0]),
           'the parser can be left without a lexer reset on the %s exit' % (
               'exceptional' if leaks_exc and not leaks_normal else 'normal' if leaks_normal and not leaks_exc
               else 'normal and exceptional'))
    # lexer passed to yacc is the wrapper's current ply lexer
    lk = [k for k in ycalls[0].keywords if k.arg == 'lexer']
    chk.ob(rule, 'SmiV2Parser.parse/lexer-arg', len(lk) == 1 and norm(lk[0].value) == 'self.lexer.lexer',
           where(mod, ycalls[0]), 'yacc must be given the current ply lexer (self.lexer.lexer)')
    # SmiV2Parser.reset -> self.lexer.reset() on all paths
    o2, rs = model.method('pysmi/parser/smi.py', 'SmiV2Parser', 'reset')
    c2 = CFG(rs)
    calls = set(n for n in c2.nodes if n.kind == 'stmt' and any(
        isinstance(c, ast.Call) and norm(c.func) == 'self.lexer.reset' for c in ast.walk(n.ast)))
    ok = bool(calls) and c2.exit not in c2.reach([c2.entry], avoid=calls, skip_labels=('exc',))
    chk.ob(rule, 'SmiV2Parser.reset/calls-lexer-reset', ok, where(o2.mod, rs),
           'SmiV2Parser.reset() must call self.lexer.reset() on every path')
    # SmiV2Lexer.reset re-creates
    o3, lr = model.method('pysmi/lexer/smi.py', 'SmiV2Lexer', 'reset')
    c3 = CFG(lr)
    recreate = set()
    for n in c3.nodes:
        if n.kind == 'stmt' and isinstance(n.ast, ast.Assign) and common.is_self_attr(n.ast.targets[0], 'lexer') and \
                isinstance(n.ast.value, ast.Call) and dotted_name(n.ast.value.func) in ('lex.lex', 'ply.lex.lex'):
            mk = [k for k in n.ast.value.keywords if k.arg == 'module']
            if mk and _key_is(mk[0].value, 'self'):
                recreate.add(n)
    # alternative idiom: lineno = 1 and begin('INITIAL') both on the path
    lin = set(n for n in c3.nodes if n.kind == 'stmt' and isinstance(n.ast, ast.Assign) and
              norm(n.ast.targets[0]) == 'self.lexer.lineno' and norm(n.ast.value) == '1')
    beg = set(n for n in c3.nodes if n.kind == 'stmt' and any(
        isinstance(c, ast.Call) and norm(c.func) == 'self.lexer.begin' and c.args and
        norm(c.args[0]) == "'INITIAL'" for c in ast.walk(n.ast)))
    # version guards folded: LEX_VERSION < [3, 0] is false for ply 3.11
    def ef(a, b, l):
        if a.kind == 'test' and 'LEX_VERSION <' in norm(a.expr):
            return l != 'T'
        return l != 'exc'
    r1 = c3.reach([c3.entry], avoid=recreate, edge_filter=ef)
    ok_recreate = c3.exit not in r1
    ok_alt = False
    if lin and beg:
        ok_alt = c3.exit not in c3.reach([c3.entry], avoid=lin | recreate, edge_filter=ef) and \
            c3.exit not in c3.reach([c3.entry], avoid=beg | recreate, edge_filter=ef)
    chk.ob(rule, 'SmiV2Lexer.reset/restores-lexer', ok_recreate or ok_alt, where(o3.mod, lr),
           'a path through reset() keeps the old ply lexer with its start state (macro/exports/choice/comment) '
           'and/or line counter')
    # __init__ must build the first lexer through reset
    o4, li = model.method('pysmi/lexer/smi.py', 'SmiV2Lexer', '__init__')
    chk.ob(rule, 'SmiV2Lexer.__init__/initial-reset', any(
        isinstance(c, ast.Call) and norm(c.func) == 'self.reset' for c in ast.walk(li)), where(o4.mod, li), '')


# ---------------------------------------------------------------------------------------------- R2 / R3
MUTATING_METHODS = ('add', 'update', 'append', 'extend', 'insert', 'pop', 'popitem', 'remove', 'discard', 'clear',
                    'setdefault', 'sort', 'reverse')


def self_attr_root(node):
    """attribute name X if node is self.X, self.X[...], self.X[...][...]"""
    while isinstance(node, ast.Subscript):
        node = node.value
    if common.is_self_attr(node):
        return node.attr
    return None


def writes_in(fn):
    """(attr, kind, node): kinds 'assign' (self.X = v), 'aug', 'item' (self.X[..] = v), 'call' (self.X.m())"""
    out = []
    for n in walk_no_nested(fn):
        if isinstance(n, ast.Assign):
            for t in n.targets:
                for tt in (t.elts if isinstance(t, (ast.Tuple, ast.List)) else [t]):
                    if common.is_self_attr(tt):
                        out.append((tt.attr, 'assign', n))
                    elif isinstance(tt, ast.Subscript) and self_attr_root(tt):
                        out.append((self_attr_root(tt), 'item', n))
        elif isinstance(n, ast.AugAssign):
            if common.is_self_attr(n.target):
                out.append((n.target.attr, 'aug', n))
            elif isinstance(n.target, ast.Subscript) and self_attr_root(n.target):
                out.append((self_attr_root(n.target), 'item', n))
        elif isinstance(n, ast.Delete):
            for t in n.targets:
                if isinstance(t, ast.Subscript) and self_attr_root(t):
                    out.append((self_attr_root(t), 'item', n))
        elif isinstance(n, ast.Call) and isinstance(n.func, ast.Attribute) and n.func.attr in MUTATING_METHODS and \
                common.is_self_attr(n.func.value):
            out.append((n.func.value.attr, 'call:' + n.func.attr, n))
    return out


def reachable_methods(ci, start):
    """methods of the class (through the MRO) reachable from `start` by self-calls,
    handlersTable dispatch and explicit Base.method(self, ...) calls"""
    seen, order = {}, []
    stack = [start]
    while stack:
        name = stack.pop()
        if name in seen:
            continue
        owner, fn = ci.find_method(name)
        if fn is None:
            continue
        seen[name] = (owner, fn)
        order.append(name)
        for n in walk_no_nested(fn):
            if isinstance(n, ast.Call) and isinstance(n.func, ast.Attribute):
                if _key_is(n.func.value, 'self'):
                    stack.append(n.func.attr)
                elif isinstance(n.func.value, ast.Name) and n.args and _key_is(n.args[0], 'self'):
                    stack.append(n.func.attr)  # Base.method(self, ...)
            if common.is_self_attr(n, 'handlersTable'):
                o, tbl = ci.find_attr('handlersTable')
                if isinstance(tbl, ast.Dict):
                    for v in tbl.values:
                        if isinstance(v, ast.Name):
                            stack.append(v.id)
        # nested functions defined inside (e.g. genFakeSyms) are part of fn for write purposes
    return seen


def nested_writes(fn):
    out = list(writes_in(fn))
    for n in ast.walk(fn):
        if isinstance(n, (ast.FunctionDef, ast.Lambda)) and n is not fn:
            out.extend(writes_in(n))
    return out


def gencode_chain(ci):
    """genCode functions executed for this class, most derived first, following the explicit base call."""
    chain = []
    owner, fn = ci.find_method('genCode')
    seen = set()
    while fn is not None and id(fn) not in seen:
        seen.add(id(fn))
        chain.append((owner, fn))
        nxt = None
        for n in walk_no_nested(fn):
            if isinstance(n, ast.Call) and isinstance(n.func, ast.Attribute) and n.func.attr == 'genCode' and \
                    isinstance(n.func.value, ast.Name) and n.func.value.id != 'self' and n.args and \
                    _key_is(n.args[0], 'self'):
                base = owner.model.resolve_class(owner.mod, n.func.value)
                if base is not None:
                    nxt = base.find_method('genCode')
        owner, fn = nxt if nxt else (None, None)
    return chain


def first_dispatch_line(fn):
    """line of the first statement of genCode that runs handlers (mentions self.handlersTable / genImports)"""
    best = None
    for st in fn.body:
        for n in ast.walk(st):
            if (common.is_self_attr(n, 'handlersTable')) or (
                    isinstance(n, ast.Call) and isinstance(n.func, ast.Attribute) and _key_is(n.func.value, 'self')
                    and n.func.attr.startswith('gen')):
                if best is None or st.lineno < best:
                    best = st.lineno
    return best


def r2_generator_reset(chk):
    model = chk.model
    chk.doc('C12.R2', 'every instance attribute written by a method reachable from genCode is re-initialised in the '
                      'genCode prologue (before the first handler / genImports call) by `self.X = <value not reading '
                      'self.X>`, `self.X.clear()` or `self.X[<const>] = ...`')
    chk.doc('C12.R3', 'attributes whose object is returned or handed to MibInfo are re-created by assignment, not '
                      'cleared in place (the previous result would change under the caller)')
    total = 0
    for rel, cname in GENERATORS:
        ci = model.cls(rel, cname)
        chk.unit('%s:%s' % (rel, cname))
        chain = gencode_chain(ci)
        if not chain:
            raise AnalysisError('%s has no genCode' % cname)
        base_owner, base_fn = chain[-1]
        methods = reachable_methods(ci, 'genCode')
        written = {}
        for name, (owner, fn) in methods.items():
            for attr, kind, node in nested_writes(fn):
                if name == 'genCode':
                    continue
                written.setdefault(attr, []).append((name, kind, node, owner))
        # prologue resets, over the whole genCode chain (derived prologue runs before the base call)
        resets, bad_resets = {}, {}
        for owner, fn in chain:
            line = first_dispatch_line(fn)
            # idiom: `for c in (self._a, self._b): c.clear()`
            for st in fn.body:
                if isinstance(st, ast.For) and isinstance(st.iter, (ast.Tuple, ast.List)) and \
                        isinstance(st.target, ast.Name) and (line is None or st.lineno < line) and \
                        len(st.body) == 1 and norm(st.body[0]) == '%s.clear()' % st.target.id:
                    for e in st.iter.elts:
                        if common.is_self_attr(e):
                            resets.setdefault(e.attr, []).append(('clear', owner, st))
            # idiom: prologue delegated to a reset method of the same class: self.reset() / self._reset()
            for st in fn.body:
                if isinstance(st, ast.Expr) and isinstance(st.value, ast.Call) and \
                        isinstance(st.value.func, ast.Attribute) and _key_is(st.value.func.value, 'self') and \
                        not st.value.args and (line is None or st.lineno < line):
                    o2, helper = ci.find_method(st.value.func.attr)
                    if helper is not None and helper is not fn:
                        for attr, kind, node in writes_in(helper):
                            if kind == 'assign' and not any(common.is_self_attr(x, attr) for x in ast.walk(node.value)):
                                resets.setdefault(attr, []).append(('assign', o2, node))
                            elif kind == 'call:clear':
                                resets.setdefault(attr, []).append(('clear', o2, node))
            for attr, kind, node in writes_in(fn):
                if line is not None and node.lineno >= line:
                    # writes at/after the dispatch line are not a prologue reset unless the same statement
                    # only unpacks the tree (moduleName[0])
                    if not (kind == 'item' and isinstance(node, ast.Assign) and
                            isinstance(node.targets[0], ast.Tuple) and node.lineno < line + 0):
                        continue
                if kind == 'assign':
                    reads_self = any(common.is_self_attr(x, attr) for x in ast.walk(node.value))
                    if reads_self:
                        bad_resets.setdefault(attr, []).append((owner, node))
                    else:
                        resets.setdefault(attr, []).append(('assign', owner, node))
                elif kind == 'call:clear':
                    resets.setdefault(attr, []).append(('clear', owner, node))
                elif kind == 'item' and isinstance(node, ast.Assign):
                    tg = node.targets[0]
                    subs = [t for t in (tg.elts if isinstance(tg, ast.Tuple) else [tg])
                            if isinstance(t, ast.Subscript) and self_attr_root(t) == attr]
                    if subs and all(isinstance(t.slice, ast.Constant) for t in subs):
                        resets.setdefault(attr, []).append(('item', owner, node))
        # the tree unpack `self.moduleName[0], ... = ast` sits right before dispatch: accept
        for attr in sorted(written):
            sites = written[attr]
            total += 1
            where_ = where(sites[0][3].mod, sites[0][2])
            # written only through constant-key item stores that are all reset? generic check:
            ok = attr in resets
            detail = ''
            if not ok:
                if attr in bad_resets:
                    detail = 'the prologue assigns self.%s from its own previous value (`%s`): the value of an ' \
                             'earlier call leaks into this one' % (attr, norm(bad_resets[attr][0][1])[:80])
                else:
                    detail = 'self.%s is written by %s but never reset at the start of genCode: state of the ' \
                             'previous module leaks into the next' % (attr, sorted(set(s[0] for s in sites)))
            chk.ob('C12.R2', '%s/self.%s' % (cname, attr), ok, where_, detail)
        for attr in sorted(bad_resets):
            if attr not in written:
                total += 1
                o, n = bad_resets[attr][0]
                chk.ob('C12.R2', '%s/self.%s' % (cname, attr), False, where(o.mod, n),
                       'the prologue assigns self.%s from its own previous value (`%s`): the value of an earlier '
                       'call leaks into this one' % (attr, norm(n)[:80]))
        # attributes genCode itself assigns before the dispatch (per-call configuration: text switch, text filter,
        # symbol table ...): when every such assignment is conditional, the value of the previous call survives
        def assigns_always(st, attr):
            if isinstance(st, ast.Assign):
                return any(common.is_self_attr(t, attr) for t in st.targets) or any(
                    isinstance(t, ast.Tuple) and any(common.is_self_attr(e, attr) for e in t.elts) for t in st.targets)
            if isinstance(st, ast.If):
                return bool(st.orelse) and any(assigns_always(x, attr) for x in st.body) and \
                    any(assigns_always(x, attr) for x in st.orelse)
            if isinstance(st, ast.Try):
                return any(assigns_always(x, attr) for x in st.body) and not st.handlers or \
                    any(assigns_always(x, attr) for x in st.finalbody)
            return False
        for owner, fn in chain:
            line = first_dispatch_line(fn)
            cond_only = {}
            for attr, kind, node in writes_in(fn):
                if kind != 'assign' or (line is not None and node.lineno >= line):
                    continue
                cond_only.setdefault(attr, []).append(node)
            for attr, nodes in sorted(cond_only.items()):
                top = [st for st in fn.body if (line is None or st.lineno < line) and assigns_always(st, attr)]
                if attr in written:
                    continue   # judged above
                total += 1
                chk.ob('C12.R2', '%s/self.%s set on every path' % (cname, attr), bool(top), where(owner.mod, nodes[0]),
                       'genCode assigns self.%s only under a condition (`%s`): when it does not hold the value of the '
                       'previous call (another module, another caller) stays in force' % (
                           attr, norm(getattr(nodes[0], '_parent', nodes[0]))[:70].split('\n')[0]))
            # the same for members of a settings dictionary: self.genRules['text'] = ...
            items = {}
            for attr, kind, node in writes_in(fn):
                if kind == 'item' and isinstance(node, ast.Assign) and (line is None or node.lineno < line):
                    for t in node.targets:
                        if isinstance(t, ast.Subscript) and common.is_self_attr(t.value) and isinstance(t.slice, ast.Constant):
                            items.setdefault(norm(t), []).append(node)

            def item_always(st, key):
                if isinstance(st, ast.Assign):
                    return any(norm(t) == key for t in st.targets)
                if isinstance(st, ast.If):
                    return bool(st.orelse) and any(item_always(x, key) for x in st.body) and \
                        any(item_always(x, key) for x in st.orelse)
                return False
            for key, nodes in sorted(items.items()):
                top = [st for st in fn.body if (line is None or st.lineno < line) and item_always(st, key)]
                total += 1
                chk.ob('C12.R2', '%s/%s set on every path' % (cname, key), bool(top), where(owner.mod, nodes[0]),
                       'genCode stores %s only under a condition (`%s`): when it does not hold, the setting of the '
                       'previous call stays in force' % (key, norm(getattr(nodes[0], '_parent', nodes[0]))[:70].split('\n')[0]))
        # R3 escapes
        esc = set()
        for owner, fn in chain:
            for n in walk_no_nested(fn):
                if isinstance(n, ast.Return) and n.value is not None:
                    for x in ast.walk(n.value):
                        if common.is_self_attr(x) and not isinstance(getattr(x, '_parent', None), ast.Subscript) \
                                and not isinstance(getattr(x, '_parent', None), ast.Attribute):
                            par = x._parent
                            if isinstance(par, ast.keyword) or isinstance(par, (ast.Tuple, ast.Return)):
                                esc.add(x.attr)
        for attr in sorted(esc):
            if attr not in written and attr not in resets:
                continue
            kinds = [k for k, o, n in resets.get(attr, [])]
            if not kinds:
                continue
            immut = attr_is_immutable(ci, attr)
            ok = immut or (kinds and all(k == 'assign' for k in kinds))
            o, n = resets[attr][0][1], resets[attr][0][2]
            chk.ob('C12.R3', '%s/escaping self.%s' % (cname, attr), ok, where(o.mod, n),
                   'self.%s is handed to the caller but reset in place: the result of the previous genCode() call '
                   'changes under its owner' % attr)
    chk.floor('C12.R2', 18, 'attributes written by handlers in four generator classes')
    chk.floor('C12.R3', 4, 'escaping attributes')


def attr_is_immutable(ci, attr):
    """attribute only ever assigned immutable-looking values (None/str/number) - clearing is not applicable"""
    for c in ci.mro():
        for name, fn in c.methods.items():
            for a, kind, node in writes_in(fn):
                if a == attr and kind.startswith('call'):
                    return False
                if a == attr and kind == 'assign' and isinstance(node, ast.Assign) and isinstance(
                        node.value, (ast.List, ast.Dict, ast.Set, ast.Call)) and not (
                        isinstance(node.value, ast.Call) and dotted_name(node.value.func) in ('tuple', 'str')):
                    return False
    return True


# ---------------------------------------------------------------------------------------------- R4
def r4_symbol_table_read_only(chk, rule='C12.R4'):
    model = chk.model
    chk.doc(rule, 'IntermediateCodeGen (and its back-ends) never mutate in place anything obtained from '
                  'self.symbolTable: no augmented assignment, item store, del or mutating method call on an alias '
                  'of a symbol-table value (rebinding `x = x + y` is fine)')
    n_alias = 0
    for rel, cname in GENERATORS[1:]:
        ci = model.cls(rel, cname)
        for mname, fn in sorted(ci.methods.items()):
            tainted = set()
            stmts = [s for s in walk_no_nested(fn) if isinstance(s, ast.stmt)]
            stmts.sort(key=lambda s: (s.lineno, s.col_offset))

            def is_tainted_expr(e):
                for x in ast.walk(e):
                    if common.is_self_attr(x, 'symbolTable') or (isinstance(x, ast.Name) and x.id in tainted):
                        # copies are clean
                        return True
                    if isinstance(x, ast.Call) and isinstance(x.func, ast.Attribute) and \
                            _key_is(x.func.value, 'self') and x.func.attr == 'getBaseType':
                        return True
                return False

            def fresh(e):
                # expressions that build a new object: calls of list/dict/tuple/set/sorted, BinOp +, literals, comps
                if isinstance(e, ast.Call) and dotted_name(e.func) in ('list', 'dict', 'tuple', 'set', 'sorted', 'str',
                                                                        'int', 'len', 'OrderedDict'):
                    return True
                return isinstance(e, (ast.BinOp, ast.List, ast.Dict, ast.Tuple, ast.ListComp, ast.DictComp,
                                      ast.Constant, ast.Compare, ast.BoolOp, ast.JoinedStr)) and not (
                    isinstance(e, ast.Tuple))
            for _ in range(2):  # two passes for loops
                for s in stmts:
                    if isinstance(s, ast.Assign) and not fresh(s.value) and is_tainted_expr(s.value):
                        for t in s.targets:
                            for tt in (t.elts if isinstance(t, (ast.Tuple, ast.List)) else [t]):
                                if isinstance(tt, ast.Name):
                                    tainted.add(tt.id)
                    if isinstance(s, ast.For) and is_tainted_expr(s.iter):
                        for tt in (s.target.elts if isinstance(s.target, ast.Tuple) else [s.target]):
                            if isinstance(tt, ast.Name):
                                tainted.add(tt.id)
            n_alias += len(tainted)
            for s in stmts:
                bad = None
                if isinstance(s, ast.AugAssign):
                    root = s.target
                    while isinstance(root, (ast.Subscript, ast.Attribute)) and not common.is_self_attr(root):
                        root = root.value
                    if (isinstance(root, ast.Name) and root.id in tainted) or common.is_self_attr(root, 'symbolTable'):
                        bad = s
                elif isinstance(s, ast.Assign):
                    for t in s.targets:
                        if isinstance(t, ast.Subscript):
                            root = t
                            while isinstance(root, ast.Subscript):
                                root = root.value
                            if (isinstance(root, ast.Name) and root.id in tainted) or \
                                    common.is_self_attr(root, 'symbolTable'):
                                bad = s
                elif isinstance(s, ast.Delete):
                    for t in s.targets:
                        root = t
                        while isinstance(root, ast.Subscript):
                            root = root.value
                        if (isinstance(root, ast.Name) and root.id in tainted) or \
                                common.is_self_attr(root, 'symbolTable'):
                            bad = s
                for c in ast.walk(s) if isinstance(s, (ast.Expr, ast.Assign, ast.Return)) else []:
                    if isinstance(c, ast.Call) and isinstance(c.func, ast.Attribute) and \
                            c.func.attr in MUTATING_METHODS:
                        root = c.func.value
                        while isinstance(root, ast.Subscript):
                            root = root.value
                        if (isinstance(root, ast.Name) and root.id in tainted) or \
                                common.is_self_attr(root, 'symbolTable'):
                            bad = s
                if bad is not None:
                    chk.ob(rule, '%s.%s/in-place %s' % (cname, mname, norm(bad)[:50]), False, where(ci.mod, bad),
                           'a value shared with the symbol table (and the parse tree) is modified in place, so the '
                           'output depends on what was processed before')
            if tainted:
                chk.ob(rule, '%s.%s/aliases(%s)' % (cname, mname, ','.join(sorted(tainted))), True,
                       where(ci.mod, fn), '')
    chk.floor(rule, 3, 'methods holding symbol-table aliases')


# ---------------------------------------------------------------------------------------------- R5
# audited sites whose iteration order cannot reach an output: (file, function, normalised construct) -> reason
ORDER_INSENSITIVE = {
    ('pysmi/lexer/smi.py', 'SmiV2Lexer', 'list(set(...))'):
        'token *names* handed to ply, which treats them as a set of terminals',
    ('pysmi/lexer/smi.py', 'SupportSmiV1Keywords.tokens', 'list(set($t))'):
        'token names handed to ply as a set of terminals',
    ('pysmi/codegen/symtable.py', 'SymtableCodeGen.genImports', 'for $s in set(imports[$m])'):
        'feeds only self._importMap.update() with a loop-invariant module value: a mapping, never iterated',
    ('pysmi/codegen/symtable.py', 'SymtableCodeGen.genCode', 'list(self._rows)'):
        '_symtable_rows is only membership-tested by IntermediateCodeGen.genRow',
    ('pysmi/codegen/jsondoc.py', 'JsonCodeGen.genIndex', 'for $o in $oo'):
        'builds a dict of lists; order() sorts every dict key and list before the dump, and the prefix compaction '
        'compares only entries of different depth',
}


def set_attrs(ci):
    cached = getattr(ci, '_set_attrs', None)
    if cached is not None:
        return cached
    out = ci._set_attrs = set()
    for c in ci.mro():
        for name, fn in c.methods.items():
            for n in walk_no_nested(fn):
                if isinstance(n, ast.Assign) and common.is_self_attr(n.targets[0]) and (
                        (isinstance(n.value, ast.Call) and dotted_name(n.value.func) in ('set', 'frozenset')) or
                        isinstance(n.value, (ast.Set, ast.SetComp))):
                    out.add(n.targets[0].attr)
    return out


def is_set_expr(e, sattrs, set_locals):
    if isinstance(e, (ast.Set, ast.SetComp)):
        return True
    if isinstance(e, ast.Call) and dotted_name(e.func) in ('set', 'frozenset'):
        return True
    if common.is_self_attr(e) and e.attr in sattrs:
        return True
    if isinstance(e, ast.Name) and e.id in set_locals:
        return True
    if isinstance(e, ast.Call) and dotted_name(e.func) == 'getattr' and len(e.args) >= 2 and \
            isinstance(e.args[1], ast.Constant) and e.args[1].value in ('oids',):
        return True
    if isinstance(e, ast.BinOp) and isinstance(e.op, (ast.BitOr, ast.BitAnd, ast.Sub)) and (
            is_set_expr(e.left, sattrs, set_locals) or is_set_expr(e.right, sattrs, set_locals)):
        return True
    return False


def r5_determinism(chk):
    model = chk.model
    chk.doc('C12.R5', 'every place where a set-valued expression is iterated or linearised (for, comprehension, '
                      'list()/tuple(), join, unpacking, pop) is wrapped in sorted(), or is one of the audited '
                      'order-insensitive sites (table ORDER_INSENSITIVE with a reason each)')
    n_sites = 0
    used = set()
    for rel, mod in sorted(model.modules.items()):
        if not rel.startswith('pysmi/') and not rel.startswith('scripts/'):
            continue
        for scope in [None] + [n for n in ast.walk(mod.tree) if isinstance(n, (ast.FunctionDef, ast.ClassDef))]:
            if isinstance(scope, ast.ClassDef):
                body_nodes = [n for st in scope.body if not isinstance(st, (ast.FunctionDef, ast.ClassDef))
                              for n in ast.walk(st)]
                qn = common.qualname(scope)
                sattrs = set()
            elif isinstance(scope, ast.FunctionDef):
                body_nodes = list(walk_no_nested(scope))
                qn = common.qualname(scope)
                cls = common.enclosing_class(scope)
                sattrs = set_attrs(model.cls(rel, cls.name)) if cls is not None and \
                    model.cls(rel, cls.name, required=False) else set()
            else:
                body_nodes = [n for st in mod.tree.body if not isinstance(st, (ast.FunctionDef, ast.ClassDef))
                              for n in ast.walk(st)]
                qn = '<module>'
                sattrs = set()
            set_locals = set()
            for n in body_nodes:
                if isinstance(n, ast.Assign) and len(n.targets) == 1 and isinstance(n.targets[0], ast.Name) and \
                        is_set_expr(n.value, sattrs, set_locals):
                    set_locals.add(n.targets[0].id)
            for n in body_nodes:
                site = None
                if isinstance(n, ast.For) and is_set_expr(n.iter, sattrs, set_locals):
                    site = ('for %s in %s' % (norm(n.target), norm(n.iter)), n)
                elif isinstance(n, ast.comprehension) and is_set_expr(n.iter, sattrs, set_locals):
                    par = getattr(n, '_parent', None)
                    if isinstance(par, (ast.SetComp,)):
                        continue
                    # comprehension directly inside sorted()/set()/dict membership is fine
                    gp = getattr(par, '_parent', None)
                    if isinstance(gp, ast.Call) and dotted_name(gp.func) in ('sorted', 'set', 'frozenset', 'any', 'all',
                                                                             'sum', 'len', 'min', 'max', 'dict'):
                        continue
                    site = ('%s for %s in %s' % (type(par).__name__, norm(n.target), norm(n.iter)), n.iter)
                elif isinstance(n, ast.Call) and dotted_name(n.func) in ('list', 'tuple') and n.args and \
                        is_set_expr(n.args[0], sattrs, set_locals):
                    txt = norm(n)
                    if isinstance(n.args[0], ast.Call) and len(txt) > 40:
                        txt = '%s(set(...))' % dotted_name(n.func)
                    site = (txt, n)
                elif isinstance(n, ast.Call) and isinstance(n.func, ast.Attribute) and n.func.attr == 'join' and \
                        n.args and is_set_expr(n.args[0], sattrs, set_locals):
                    site = ('join(%s)' % norm(n.args[0]), n)
                elif isinstance(n, ast.Call) and isinstance(n.func, ast.Attribute) and n.func.attr == 'pop' and \
                        not n.args and is_set_expr(n.func.value, sattrs, set_locals):
                    site = ('%s.pop()' % norm(n.func.value), n)
                elif isinstance(n, ast.Call) and isinstance(n.func, ast.Attribute) and n.func.attr in (
                        'extend',) and n.args and is_set_expr(n.args[0], sattrs, set_locals):
                    site = ('extend(%s)' % norm(n.args[0]), n)
                if site is None:
                    continue
                txt, node = site
                # sorted(...) wrapper around list()/the iterable
                par = getattr(node, '_parent', None)
                if isinstance(par, ast.Call) and dotted_name(par.func) == 'sorted':
                    continue
                n_sites += 1
                key = (rel, qn, txt)
                exempt = None
                for (r_, q_, pat), why in ORDER_INSENSITIVE.items():
                    if r_ == rel and q_ == qn and common.pmatch(txt, pat) is not None:
                        exempt = why
                        used.add((r_, q_, pat))
                chk.ob('C12.R5', '%s:%s/%s' % (rel, qn, txt), bool(exempt), where(mod, node),
                       'iteration order of a set reaches a sequence/loop here; with string elements it depends on '
                       'PYTHONHASHSEED' if not exempt else 'audited: ' + exempt)
    chk.floor('C12.R5', 4, 'audited set-iteration sites')
    for key in ORDER_INSENSITIVE:
        if key not in used:
            chk.note('audited order-insensitive site no longer present: %s' % (key,))



def r6_status_objects_not_shared(chk):
    """the six MibStatus constants are module-level objects: setOptions must annotate a copy - shared with C07.R3"""
    from rules.C07 import r3_status_values
    common.reuse(chk, r3_status_values, ('C07.R3',), 'C12.R6',
                 'MibStatus.setOptions returns an annotated copy and never writes to the module-level status constant '
                 'it is called on: otherwise every module of this and of later compile() calls (and of other '
                 'compilers in the process) reports the attributes of the module stored last',
                 keep=lambda o: o.key == 'MibStatus.setOptions')



def r7_class_tables_not_mutated(chk):
    """dialect classes and code generators derive tables from each other: a derived table must be a copy"""
    common.no_mutation_of_class_tables_through_aliases(chk, 'C12.R7', sorted(r for r in chk.model.modules if r.startswith(('pysmi/lexer/', 'pysmi/parser/', 'pysmi/codegen/', 'pysmi/compiler.py'))), floor=4)



def r_no_partial_key_memo(chk):
    """an answer cached under part of the clause is wrong for the clause that differs in the rest"""
    common.no_partial_key_memo(chk, 'C12.R8', 'pysmi/codegen/intermediate.py', 'IntermediateCodeGen')
    common.no_partial_key_memo(chk, 'C12.R8', 'pysmi/codegen/symtable.py', 'SymtableCodeGen')



def r9_compile_keeps_its_state_in_locals(chk):
    """what one compile() call learns must not be there for the next one"""
    model = chk.model
    chk.doc('C12.R9', 'MibCompiler.compile / buildIndex (and the methods of the compiler they call): no instance attribute '
                      'of the compiler is written, and no local that is bound directly to `self.<attr>` (no copy, no '
                      'constructor around it) is modified in place - item store or delete, mutating method, augmented '
                      'assignment.  The maps of parsed / failed / built modules and the symbol tables are created in the '
                      'call; a map that lives on the compiler object hands a later call the modules (and symbol tables) of '
                      'an earlier one')
    ci = model.cls('pysmi/compiler.py', 'MibCompiler')
    n = 0
    for entry in ('compile', 'buildIndex'):
        for mname, (owner, fn) in sorted(reachable_methods(ci, entry).items()):
            n += 1
            ws = writes_in(fn)
            chk.ob('C12.R9', 'MibCompiler.%s/no-instance-writes' % mname, not ws, where(owner.mod, ws[0][2] if ws else fn),
                   '%s() writes self.%s (%s)' % (mname, ws[0][0], norm(ws[0][2])[:60]) if ws else '')
            alias = {}
            for s_ in walk_no_nested(fn):
                if isinstance(s_, ast.Assign) and len(s_.targets) == 1 and isinstance(s_.targets[0], ast.Name) and \
                        common.is_self_attr(s_.value):
                    alias[s_.targets[0].id] = s_
            bad = []
            for x in walk_no_nested(fn):
                tgt = None
                if isinstance(x, ast.Assign):
                    for t in x.targets:
                        if isinstance(t, ast.Subscript) and isinstance(t.value, ast.Name):
                            tgt = t.value.id
                elif isinstance(x, ast.AugAssign):
                    t = x.target
                    tgt = t.id if isinstance(t, ast.Name) else (t.value.id if isinstance(t, ast.Subscript) and
                                                               isinstance(t.value, ast.Name) else None)
                elif isinstance(x, ast.Delete):
                    for t in x.targets:
                        if isinstance(t, ast.Subscript) and isinstance(t.value, ast.Name):
                            tgt = t.value.id
                elif isinstance(x, ast.Call) and isinstance(x.func, ast.Attribute) and x.func.attr in MUTATING_METHODS and \
                        isinstance(x.func.value, ast.Name):
                    tgt = x.func.value.id
                if tgt in alias:
                    bad.append((tgt, x))
            chk.ob('C12.R9', 'MibCompiler.%s/no-instance-state-through-a-local' % mname, not bad,
                   where(owner.mod, bad[0][1] if bad else fn),
                   'local `%s` is the object held in %s and is modified in place (%s): what this call stores there is '
                   'still there in the next call' % (bad[0][0], norm(alias[bad[0][0]].value), norm(bad[0][1])[:60]) if bad else '')
    chk.floor('C12.R9', 2, 'methods reachable from compile / buildIndex')


RULES = [r1_parser_reset, r2_generator_reset, r4_symbol_table_read_only, r5_determinism, r6_status_objects_not_shared, r7_class_tables_not_mutated, r_no_partial_key_memo, r9_compile_keeps_its_state_in_locals]
